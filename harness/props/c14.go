package props

import (
	"encoding/json"
	"fmt"
	"strings"
	"sync"

	"verifharness/core"
	"verifharness/oracle"
)

// C14 — attribute binding: falsy omits, class and style merge, v-show adds
// display:none, directives never leak, bracketed attributes appear literally.
//
// One test element inside a wrapper carries 1..6 attributes. The reference
// model (c14Model) computes, from the structured description of the attributes
// and the typed data alone, which attribute names the rendered element must
// have and with which value; the observation is the attribute list of that
// element in the golang.org/x/net/html re-parse of the rendered bytes.

// ---------------------------------------------------------------------------
// case description

// c14Expr is one expression of the closed expression vocabulary. The source
// text and the reference value are both derived from it (c14ExprSrc, c14Eval).
type c14Expr struct {
	F string `json:"f"`           // var | path | not | must | wrap | eqwrap | gt | eq | cat | lit
	V string `json:"v,omitempty"` // variable name
	L *TV    `json:"l,omitempty"` // literal (lit) or right operand (gt: int, eq/cat: string)
}

type c14Ent struct {
	Key string  `json:"key"`         // key as the author means it (fontSize, background-color, --my-var, is-on)
	Q   string  `json:"q,omitempty"` // quote character around the key in the source: "", "'" or "\""
	E   c14Expr `json:"e"`
}

type c14Attr struct {
	K    string   `json:"k"`              // static | interp | bound | cobj | sobj | show | bracket | dir
	P    string   `json:"p,omitempty"`    // ":" or "v-bind:" (bound, cobj, sobj)
	N    string   `json:"n,omitempty"`    // attribute name / bracketed inner name / directive name
	S    string   `json:"s,omitempty"`    // static value, interpolated template, bracketed raw value
	Bare bool     `json:"bare,omitempty"` // written without ="..."
	Sp   bool     `json:"sp,omitempty"`   // object literal written with spaces around ':' and ','
	Nl   bool     `json:"nl,omitempty"`   // object literal written over several lines
	E    *c14Expr `json:"e,omitempty"`    // bound / v-show / v-if / v-else-if expression
	Ents []c14Ent `json:"ents,omitempty"` // object entries (cobj, sobj)
}

type c14Case struct {
	Part  string        `json:"part"` // ex1 | ex2 | ex3 | rand
	Skip  string        `json:"skip,omitempty"`
	Tag   string        `json:"tag,omitempty"`
	Attrs []c14Attr     `json:"attrs,omitempty"`
	Vars  map[string]TV `json:"vars,omitempty"`
}

// c14JudgeBracketMustache: the statement says a bracketed attribute appears
// "with its value untouched"; the engine evaluates {{ }} inside such a value
// (pinned by the repository's own test "colon prefix binding escape with
// interpolation"). With true the statement is applied literally and the
// difference is reported under its own signature bracket/value-interpolated.
const c14JudgeBracketMustache = true

// ---------------------------------------------------------------------------
// expression vocabulary

func c14ExprSrc(e c14Expr) string {
	switch e.F {
	case "var":
		return e.V
	case "path":
		return "o." + e.V
	case "not":
		return "!" + e.V
	case "must": // the whole binding is a mustache: the value's text is the value
		return "{{ " + e.V + " }}"
	case "wrap": // an expression that begins and ends with a quoted literal without being one
		return "'w-' + " + e.V + " + '-z'"
	case "eqwrap":
		return "'tab-' + " + e.V + " == 'tab-a'"
	case "gt":
		return fmt.Sprintf("%s > %d", e.V, e.L.I)
	case "eq":
		return fmt.Sprintf("%s == '%s'", e.V, e.L.S)
	case "cat":
		return fmt.Sprintf("%s + '%s'", e.V, e.L.S)
	case "max", "min": // a call with two arguments: a comma inside parentheses
		return fmt.Sprintf("%s(%s, %d)", e.F, e.V, e.L.I)
	case "lit":
		switch e.L.K {
		case "bool":
			return fmt.Sprint(e.L.B)
		case "int":
			return fmt.Sprint(e.L.I)
		case "float64":
			return fmt.Sprint(e.L.F)
		case "string":
			return "'" + e.L.S + "'"
		}
	}
	return "zz"
}

// c14Eval is the reference evaluation of an expression. ok=false: the value
// (or its truthiness) is not decided by the documented rules.
func c14Eval(e c14Expr, vars map[string]TV) (TV, bool) {
	get := func() TV {
		if v, ok := vars[e.V]; ok {
			return v
		}
		return tvMissing()
	}
	switch e.F {
	case "var", "path":
		v := get()
		_, dec := v.Truthy()
		return v, dec
	case "not":
		t, dec := get().Truthy()
		return tvB(!t), dec
	case "wrap", "eqwrap":
		v := get()
		if v.K != "string" {
			return TV{}, false
		}
		if e.F == "wrap" {
			return tvS("w-" + v.S + "-z"), true
		}
		return tvB("tab-"+v.S == "tab-a"), true
	case "must":
		v := get()
		if (v.K == "string" && v.S != "" && v.S != "false" && v.S != "0") || (v.K == "int" && v.I != 0) {
			return tvS(c14Form(v)), true
		}
		return TV{}, false
	case "gt":
		v := get()
		if v.K != "int" || e.L == nil {
			return TV{}, false
		}
		return tvB(v.I > e.L.I), true
	case "eq":
		v := get()
		if v.K != "string" || e.L == nil {
			return TV{}, false
		}
		return tvB(v.S == e.L.S), true
	case "cat":
		v := get()
		if v.K != "string" || e.L == nil {
			return TV{}, false
		}
		return tvS(v.S + e.L.S), true
	case "max", "min":
		v := get()
		if v.K != "int" || e.L == nil {
			return TV{}, false
		}
		if (e.F == "max") == (v.I > e.L.I) {
			return tvI(int(v.I)), true
		}
		return tvI(int(e.L.I)), true
	case "lit":
		if e.L == nil {
			return TV{}, false
		}
		return *e.L, true
	}
	return TV{}, false
}

// c14Form is the string form of a value (fmt.Sprint of the Go value).
func c14Form(v TV) string {
	if v.K == "nil" || v.K == "missing" {
		return ""
	}
	return fmt.Sprint(v.Go())
}

func c14ValClass(v TV) string {
	switch v.K {
	case "string":
		switch {
		case v.S == "":
			return "string:empty"
		case strings.TrimSpace(v.S) != v.S:
			return "string:padded"
		case strings.ContainsAny(v.S, "&<>\"'"):
			return "string:special"
		}
		return "string"
	case "bool":
		return fmt.Sprintf("bool:%v", v.B)
	case "nil", "missing":
		return v.K
	}
	if strings.HasPrefix(v.K, "int") || strings.HasPrefix(v.K, "uint") || strings.HasPrefix(v.K, "float") {
		t, _ := v.Truthy()
		if t {
			return v.K + ":nonzero"
		}
		return v.K + ":zero"
	}
	return v.K
}

// c14ValGroup is the coarse value class used in violation signatures
// (c14ValClass, the fine one, is used for coverage cells only).
func c14ValGroup(v TV) string {
	switch v.K {
	case "string", "bool", "nil", "missing":
		return c14ValClass(v)
	}
	if strings.HasPrefix(v.K, "int") || strings.HasPrefix(v.K, "uint") || strings.HasPrefix(v.K, "float") {
		if t, _ := v.Truthy(); t {
			return "number:nonzero"
		}
		return "number:zero"
	}
	return "composite"
}

// ---------------------------------------------------------------------------
// vocabulary

var c14Tags = []string{"div", "span", "a", "input", "p"}

// values for generic bound attributes and object-syntax class values
var c14Vals = []TV{
	{K: "bool"}, {K: "bool", B: true},
	{K: "int"}, {K: "int", I: 7}, {K: "int", I: -1}, {K: "int8"}, {K: "int8", I: 3}, {K: "int16", I: 7}, {K: "int32"}, {K: "int64", I: 1 << 40},
	{K: "uint"}, {K: "uint8", U: 255}, {K: "uint16"}, {K: "uint16", U: 9}, {K: "uint32", U: 1}, {K: "uint64"}, {K: "uint64", U: 1 << 50}, {K: "uintptr"},
	{K: "float32"}, {K: "float32", F: 0.5}, {K: "float64"}, {K: "float64", F: -0.25}, {K: "float64", F: 2.5},
	// string forms that differ between formatting routes (shortest float32 vs widened, exponent forms, extremes)
	{K: "float32", F: 0.1}, {K: "float32", F: 3.14}, {K: "float32", F: 16777216}, {K: "float32", F: 1e-7}, {K: "float64", F: 0.1}, {K: "float64", F: 1e21}, {K: "float64", F: 1e-7}, {K: "float64", F: 123456789.125}, {K: "float64", F: 100},
	{K: "int64", I: -1 << 63}, {K: "uint64", U: 1<<64 - 1}, {K: "int8", I: -128}, {K: "uint8", U: 65}, {K: "int32", I: 65},
	{K: "NamedString", S: "ns"}, {K: "NamedInt", I: 12}, {K: "NamedUint8", U: 66}, {K: "NamedFloat", F: 0.1}, {K: "NamedBool", B: true}, {K: "Stringer", S: "via String()"}, {K: "error", S: "via Error()"}, {K: "Duration", I: 1500000000}, {K: "Month", I: 3}, {K: "FileMode", U: 0o755},
	{K: "string"}, {K: "string", S: "bv"}, {K: "string", S: "0"}, {K: "string", S: " "}, {K: "string", S: "  pad  "}, {K: "string", S: "two words"},
	{K: "string", S: `a"b<c&d`}, {K: "string", S: "x:y;z,w"}, {K: "string", S: "nil"}, {K: "string", S: "true"},
	{K: "nil"}, {K: "missing"},
	{K: "*Item", M: map[string]TV{"title": tvS("t")}}, {K: "Item"}, {K: "slice"}, {K: "slice", L: []TV{tvI(0)}},
	{K: "map"}, {K: "map", M: map[string]TV{"a": tvI(0)}}, {K: "[]int"}, {K: "[]string", L: []TV{tvS("p"), tvS("q")}}, {K: "time", I: 0}, {K: "struct{}"}, {K: "map[string]string"},
}

var c14StaticNames = []string{"id", "title", "data-k", "data-j", "href", "lang", "alt"}
var c14BoundNames = []string{"id", "title", "data-k", "data-j", "href", "data-b", "data-c", "disabled", "hidden", "value"}
var c14StaticVals = []string{"main", "Hello world", "  padded  ", `a&b <c> "q"`, "", "x:y;z,w", "{curly}", "0", "false", "trail "}
// (the later ones contain bound class names - on, off, is-on, b1, b2, a1, g - as substrings of other tokens)
var c14StaticClass = []string{"s1", "s1 s2", "button xon offset", "x-is-on-y third-party", "b1b2 sb1 a1x", "song", "  s1   s2 ", "s-1 s_2 s3"}
var c14StaticStyle = []string{"color: red; margin: 0; color: blue", "display:-webkit-box;display:flex", "display:none", "display: none; color: blue", "color: blue; display: flex", "color: blue", "color: blue; margin: 0", "margin:0;padding:1px 2px", "color: blue; font-size: 10px; background-color: white", "width: 5px;", " color : blue ; margin : 0 ; "}
var c14BoundClassStr = []TV{tvS("b1 b2"), tvS("b1"), tvS(" b1  b2 "), tvS(""), tvNil(), tvMissing()}
var c14BoundStyleStr = []TV{tvS("display: none"), tvS("color: red"), tvS("color: red; width: 1px"), tvS("font-size:12px;"), tvS(""), tvMissing()}
var c14ClassKeys = []string{"on", "off", "is-on", "active", "btn-primary", "big_one", "x1", "k2"}

// style keys: as written -> needs quoting
var c14StyleKeys = []string{"color", "fontSize", "font-size", "backgroundColor", "background-color", "--my-var", "marginTop", "width", "zIndex", "borderTopLeftRadius", "fontFamily", "backgroundImage", "display"}
var c14StyleVals = []TV{
	tvS("red"), tvS("12px"), tvS("rgb(1, 2, 3)"), tvS("url(http://x/y.png)"), tvS("1px 2px"), tvS("a:b"), tvS("p,q"), tvS(" spaced "),
	tvI(3), tvI(0), tvF(1.5), {K: "uint8", U: 4},
	tvS(`'A B', serif`), tvS(`"Q"`),
	tvS("x;y"), tvS(""), tvNil(), tvMissing(), tvB(false), tvB(true),
}
var c14BracketNames = []string{"v-if", "v-for", "v-show", "v-html", "v-text", "v-else", ":k", ":class", ":style", "@click", "v-bind:z", "v-model", "v-on:click", "v-else-if", "v-once"}
var c14BracketVals = []string{"cond", "i in list", "{a: b}", "go()", "  sp ", "x && y", "{{ $ }}", "go({{ $ }})", `a&b"c`, ""}
var c14InterpScalars = []TV{tvS("dyn"), tvI(3), tvB(true), tvF(2.5), tvS("a&b"), tvB(false), tvI(0)}

// ---------------------------------------------------------------------------
// atoms of the exhaustive part. "$" in variable names is replaced by the
// position of the attribute on the element, so that every attribute reads its
// own variables.

type c14Atom struct {
	A    c14Attr
	Vars map[string]TV
}

func c14EVar(n string) *c14Expr  { return &c14Expr{F: "var", V: n} }
func c14EPath(n string) *c14Expr { return &c14Expr{F: "path", V: n} }
func c14Op(f, n string, l TV) *c14Expr {
	return &c14Expr{F: f, V: n, L: &l}
}
func c14Lit(l TV) c14Expr { return c14Expr{F: "lit", L: &l} }

var c14AtomsOnce sync.Once
var c14AtomList []c14Atom

func c14Atoms() []c14Atom {
	c14AtomsOnce.Do(func() {
		add := func(a c14Attr, kv ...any) {
			vars := map[string]TV{}
			for i := 0; i+1 < len(kv); i += 2 {
				vars[kv[i].(string)] = kv[i+1].(TV)
			}
			c14AtomList = append(c14AtomList, c14Atom{A: a, Vars: vars})
		}
		st := func(n, s string) c14Attr { return c14Attr{K: "static", N: n, S: s} }
		// static
		add(st("id", "main"))
		add(st("title", "Hello world"))
		add(st("title", "  padded  "))
		add(st("data-k", `a&b <c> "q"`))
		add(st("class", "s1 s2"))
		add(st("class", "button xon offset is-on-dark b1b2"))
		add(st("style", "color: blue; margin: 0"))
		add(st("style", "display:none"))
		add(st("style", "color: red; margin: 0; color: blue"))
		add(st("style", "display:-webkit-box;display:flex;width:1px"))
		add(st("style", "color: blue; display: none"))
		add(st("style", "display: inline-block"))
		add(st("style", "background:url(data:image/png;base64,AAAA); color: blue"))
		// a semicolon inside a single-quoted / double-quoted CSS string is not the end of a declaration
		add(st("style", "content: ';'; color: blue"))
		add(st("style", "font-family: 'a;b', serif; margin: 0"))
		add(st("style", `quotes: "«;" "»"; color: blue`))
		add(st("data-j", ""))
		// values that already hold the text of an entity: written with one more level of escaping, read back as they are
		add(st("data-e", `show &lt; as text, R&amp;D, &#34;q&#34;`))
		add(c14Attr{K: "static", N: "disabled", Bare: true})
		// interpolated
		add(c14Attr{K: "interp", N: "title", S: "a {{ v$ }} b"}, "v$", tvS("dyn"))
		add(c14Attr{K: "interp", N: "data-k", S: "{{ v$ }}"}, "v$", tvI(3))
		add(c14Attr{K: "interp", N: "title", S: "a {{ v$ }} b"}, "v$", tvS("x &amp; y &#39;z&#39;"))
		add(c14Attr{K: "interp", N: "class", S: "s1 c-{{ v$ }}"}, "v$", tvS("dyn"))
		add(c14Attr{K: "interp", N: "style", S: "color: {{ v$ }}"}, "v$", tvS("green"))
		add(c14Attr{K: "interp", N: "style", S: "{{ v$ }}"}, "v$", tvS("color: green"))
		add(c14Attr{K: "interp", N: "id", S: "i{{ v$ }}-{{ w$ }}"}, "v$", tvI(3), "w$", tvB(true))
		// bound, no static partner in the vocabulary
		bd := func(p, n string, e *c14Expr) c14Attr { return c14Attr{K: "bound", P: p, N: n, E: e} }
		add(bd(":", "data-b", c14EVar("v$")), "v$", tvS("bv"))
		add(bd(":", "data-b", c14EVar("v$")), "v$", tvS(""))
		add(bd(":", "data-b", c14EVar("v$")), "v$", tvI(0))
		add(bd(":", "data-b", c14EVar("v$")), "v$", tvI(7))
		add(bd(":", "data-b", c14EVar("v$")), "v$", tvB(false))
		add(bd(":", "data-b", c14EVar("v$")), "v$", tvB(true))
		add(bd(":", "data-b", c14EVar("v$")), "v$", tvNil())
		add(bd(":", "data-b", c14EVar("v$")), "v$", tvMissing())
		add(bd("v-bind:", "data-b", c14EPath("v$")), "v$", tvF(2.5))
		add(bd(":", "data-b", c14EVar("v$")), "v$", TV{K: "uint16"})
		// bound, colliding with the static vocabulary
		add(bd(":", "title", c14EVar("v$")), "v$", tvS("bound title"))
		add(bd(":", "title", c14EVar("v$")), "v$", tvS("Tom &amp; Jerry &lt;b&gt; &#34;q&#34;"))
		add(bd(":", "title", c14EVar("v$")), "v$", tvB(false))
		add(bd("v-bind:", "id", c14EVar("v$")), "v$", tvI(42))
		add(bd(":", "data-k", c14EPath("v$")), "v$", tvS(`x"y&z`))
		// bound expressions
		add(bd(":", "data-c", c14Op("gt", "v$", tvI(3))), "v$", tvI(5))
		add(bd(":", "data-c", c14Op("gt", "v$", tvI(3))), "v$", tvI(1))
		add(bd(":", "data-c", c14Op("cat", "v$", tvS("-x"))), "v$", tvS("str"))
		add(bd(":", "disabled", c14EVar("v$")), "v$", tvB(true))
		// the whole binding written as a mustache
		add(bd(":", "title", &c14Expr{F: "must", V: "v$"}), "v$", tvS("bound m"))
		add(bd("v-bind:", "data-b", &c14Expr{F: "must", V: "v$"}), "v$", tvI(7))
		add(bd(":", "class", &c14Expr{F: "must", V: "v$"}), "v$", tvS("m1 m2"))
		add(bd(":", "style", &c14Expr{F: "must", V: "v$"}), "v$", tvS("color: red"))
		// bound class
		add(bd(":", "class", c14EVar("v$")), "v$", tvS("b1 b2"))
		add(bd(":", "class", c14EVar("v$")), "v$", tvS(""))
		// a bound class that is not a string: its string form is the class
		add(bd(":", "class", c14EVar("v$")), "v$", tvI(5))
		add(bd(":", "class", c14EVar("v$")), "v$", tvB(true))
		add(bd(":", "class", c14EVar("v$")), "v$", TV{K: "NamedString", S: "ns1"})
		ent := func(k, q string, e c14Expr) c14Ent { return c14Ent{Key: k, Q: q, E: e} }
		add(c14Attr{K: "cobj", P: ":", N: "class", Ents: []c14Ent{ent("on", "", *c14EVar("v$")), ent("off", "", *c14EVar("w$"))}}, "v$", tvB(true), "w$", tvB(false))
		add(c14Attr{K: "cobj", P: ":", N: "class", Nl: true, Ents: []c14Ent{ent("is-on", "'", *c14EVar("v$")), ent("off", "", *c14EVar("w$")), ent("third", "", c14Lit(tvI(1)))}}, "v$", tvI(3), "w$", tvS(""))
		add(c14Attr{K: "cobj", P: "v-bind:", N: "class", Ents: []c14Ent{ent("on", "", *c14EVar("v$"))}}, "v$", tvI(0))
		add(c14Attr{K: "cobj", P: ":", N: "class", Sp: true, Ents: []c14Ent{ent("g", "", *c14Op("gt", "v$", tvI(3))), ent("q-r", "'", *c14Op("eq", "w$", tvS("x"))), ent("neg", "", c14Expr{F: "not", V: "u$"})}}, "v$", tvI(5), "w$", tvS("x"), "u$", tvB(true))
		add(c14Attr{K: "cobj", P: ":", N: "class", Ents: []c14Ent{ent("a1", "", *c14EVar("v$")), ent("a2", "", *c14EPath("w$")), ent("a3", "", *c14EVar("u$"))}}, "v$", tvS("x,y"), "w$", tvS("p:q"), "u$", tvMissing())
		add(c14Attr{K: "cobj", P: ":", N: "class", Ents: []c14Ent{ent("dq", `"`, *c14EVar("v$")), ent("lit", "", c14Lit(tvS("s")))}}, "v$", tvB(true))
		add(c14Attr{K: "cobj", P: ":", N: "class", Ents: []c14Ent{ent("md:flex", "'", *c14EVar("v$")), ent("hover:bg-red", `"`, *c14EVar("w$")), ent("plain", "", *c14EVar("v$"))}}, "v$", tvB(true), "w$", tvB(false))
		add(c14Attr{K: "cobj", P: ":", N: "class", Ents: []c14Ent{ent("mx", "", *c14Op("max", "v$", tvI(2))), ent("mn", "", *c14Op("min", "w$", tvI(3))), ent("after", "", *c14EVar("u$"))}}, "v$", tvI(0), "w$", tvI(0), "u$", tvB(true))
		// object values that begin and end with a quoted literal
		add(c14Attr{K: "cobj", P: ":", N: "class", Ents: []c14Ent{ent("sel", "", c14Expr{F: "eqwrap", V: "v$"}), ent("other", "", c14Expr{F: "eqwrap", V: "w$"}), ent("named", "", c14Expr{F: "wrap", V: "v$"})}}, "v$", tvS("a"), "w$", tvS("b"))
		add(c14Attr{K: "sobj", P: ":", N: "style", Ents: []c14Ent{ent("backgroundImage", "", c14Expr{F: "wrap", V: "v$"}), ent("color", "", c14Lit(tvS("red")))}}, "v$", tvS("img"))
		// bound style
		add(bd(":", "style", c14EVar("v$")), "v$", tvS("color: red; width: 1px"))
		add(bd(":", "style", c14EVar("v$")), "v$", tvS(""))
		add(c14Attr{K: "sobj", P: ":", N: "style", Ents: []c14Ent{ent("color", "", *c14EVar("v$")), ent("fontSize", "", c14Lit(tvS("12px")))}}, "v$", tvS("red"))
		add(c14Attr{K: "sobj", P: ":", N: "style", Ents: []c14Ent{ent("background-color", "'", *c14EVar("v$")), ent("--my-var", "'", *c14EPath("w$")), ent("marginTop", "", c14Lit(tvI(0)))}}, "v$", tvS("white"), "w$", tvS("7"))
		add(c14Attr{K: "sobj", P: "v-bind:", N: "style", Nl: true, Ents: []c14Ent{ent("color", "", *c14EVar("v$"))}}, "v$", tvS("rgb(1, 2, 3)"))
		add(c14Attr{K: "sobj", P: ":", N: "style", Sp: true, Ents: []c14Ent{ent("backgroundImage", "", *c14EVar("v$")), ent("margin", "", c14Lit(tvS("1px, 2px")))}}, "v$", tvS("url(http://x/y.png)"))
		add(c14Attr{K: "sobj", P: ":", N: "style", Ents: []c14Ent{ent("width", "", *c14Op("cat", "v$", tvS("px"))), ent("zIndex", "", *c14EVar("w$"))}}, "v$", tvS("10"), "w$", tvI(3))
		add(c14Attr{K: "sobj", P: ":", N: "style", Ents: []c14Ent{ent("display", "", c14Lit(tvS("block")))}})
		add(c14Attr{K: "sobj", P: ":", N: "style", Ents: []c14Ent{ent("display", "", *c14EVar("v$")), ent("color", "", c14Lit(tvS("red")))}}, "v$", tvS("none"))
		add(c14Attr{K: "sobj", P: ":", N: "style", Ents: []c14Ent{ent("fontFamily", "", *c14EVar("v$"))}}, "v$", tvS(`'A B', serif`))
		// v-show
		sh := func(e *c14Expr) c14Attr { return c14Attr{K: "show", E: e} }
		add(sh(c14EVar("v$")), "v$", tvB(true))
		add(sh(c14EVar("v$")), "v$", tvB(false))
		add(sh(c14EVar("v$")), "v$", tvI(0))
		add(sh(c14EPath("v$")), "v$", tvS("x"))
		add(sh(c14EVar("v$")), "v$", tvMissing())
		add(sh(&c14Expr{F: "not", V: "v$"}), "v$", tvB(true))
		add(sh(c14Op("gt", "v$", tvI(3))), "v$", tvI(1))
		// bracketed
		br := func(n, s string) c14Attr { return c14Attr{K: "bracket", N: n, S: s} }
		add(br("v-if", "cond"))
		add(br(":k", "expr.x"))
		add(br("@click", "go({{ v$ }})"), "v$", tvI(5))
		add(br("v-for", "i in list"))
		add(br("v-show", "  sp "))
		add(br(":class", "{a: b}"))
		add(br("data-raw", "x &amp;amp; y &gt; z"))
		add(br("v-html", "{{ v$ }}"), "v$", tvS("dyn"))
		// directives
		add(c14Attr{K: "dir", N: "v-if", E: c14EVar("v$")}, "v$", tvB(true))
		add(c14Attr{K: "dir", N: "v-else-if", E: c14EVar("v$")}, "v$", tvI(1))
		add(c14Attr{K: "dir", N: "v-else", Bare: true})
		add(c14Attr{K: "dir", N: "v-for"})
		add(c14Attr{K: "dir", N: "v-html"})
		add(c14Attr{K: "dir", N: "v-text"})
		add(c14Attr{K: "dir", N: "v-once", Bare: true})
	})
	return c14AtomList
}

func c14Inst(at c14Atom, pos int, into map[string]TV) c14Attr {
	d := fmt.Sprint(pos)
	rep := func(s string) string { return strings.ReplaceAll(s, "$", d) }
	a := at.A
	a.S = rep(a.S)
	if a.E != nil {
		e := *a.E
		e.V = rep(e.V)
		a.E = &e
	}
	if len(a.Ents) > 0 {
		es := make([]c14Ent, len(a.Ents))
		for i, x := range a.Ents {
			x.E.V = rep(x.E.V)
			es[i] = x
		}
		a.Ents = es
	}
	for k, v := range at.Vars {
		into[rep(k)] = v
	}
	return a
}

// ---------------------------------------------------------------------------
// validity of a combination (the bounded vocabulary of the quantifier)

func c14Kebab(k string) string {
	if strings.Contains(k, "-") {
		return k
	}
	var b strings.Builder
	for i, r := range k {
		if i > 0 && r >= 'A' && r <= 'Z' {
			b.WriteByte('-')
			b.WriteRune(r - 'A' + 'a')
		} else {
			b.WriteRune(r)
		}
	}
	return b.String()
}

func c14Invalid(attrs []c14Attr) string {
	static := map[string]bool{}
	bracket := map[string]bool{}
	bound := map[string]int{}
	dirs := map[string]bool{}
	show := 0
	for _, a := range attrs {
		switch a.K {
		case "static", "interp":
			if static[a.N] {
				return "duplicate-static-name"
			}
			static[a.N] = true
		case "bracket":
			if bracket[a.N] {
				return "duplicate-bracket-name"
			}
			bracket[a.N] = true
		case "bound", "cobj", "sobj":
			bound[a.N]++
			if bound[a.N] > 1 && (a.N == "class" || a.N == "style") {
				return "two-bound-" + a.N
			}
			if bound[a.N] > 2 {
				return "three-bound-same-name"
			}
			seen := map[string]bool{}
			for _, e := range a.Ents {
				k := e.Key
				if a.K == "sobj" {
					k = c14Kebab(k)
				}
				if seen[k] {
					return "duplicate-object-key"
				}
				seen[k] = true
			}
		case "show":
			show++
			if show > 1 {
				return "two-v-show"
			}
		case "dir":
			if dirs[a.N] {
				return "duplicate-directive"
			}
			dirs[a.N] = true
		}
	}
	for n := range bracket {
		if dirs[n] || (n == "v-show" && show > 0) {
			return "bracket-and-directive-same-name"
		}
	}
	cond := 0
	for _, d := range []string{"v-if", "v-else-if", "v-else"} {
		if dirs[d] {
			cond++
		}
	}
	switch {
	case cond > 1:
		return "two-conditional-directives"
	case dirs["v-for"] && (dirs["v-else-if"] || dirs["v-else"]):
		return "v-for-with-else"
	case dirs["v-for"] && dirs["v-once"]:
		return "v-for-with-v-once"
	case dirs["v-html"] && dirs["v-text"]:
		return "v-html-with-v-text"
	}
	return ""
}

// ---------------------------------------------------------------------------
// the check

type c14 struct{}

func init() {
	core.Register(&c14{}, core.Meta{
		Exhaustive: func(ctx core.Ctx) bool { return false },
		Assumptions: []string{
			"golang.org/x/net/html re-parse of the output is the trusted observer; duplicate attributes in the raw bytes are invisible to it",
			"the test element must be rendered (v-if/v-else-if conditions are truthy, v-else follows a falsy v-if, v-for runs over two items); a missing element is reported as precondition/element-count",
			"two bound attributes of the same name: either truthy value is accepted (the statement does not say which wins); two bound class / two bound style attributes are not generated",
			"style object values that are empty, nil, missing or bool, or contain ';', are not judged (the statement does not say whether they contribute)",
			"class tokens are compared as an ordered list (static tokens first); a class attribute with no tokens and no static class may be absent or empty",
			"non-bracketed @click / v-on / v-model / v-slot are not generated (the engine has no such directives and passes them through)",
			"the string \"false\" (falsy in the engine, known finding of C03) and typed nil pointers/slices/maps are not generated",
			"a bracketed [name] together with the real directive of the same name on one element is not generated",
			"bracketed values containing {{ }} are judged literally ('value untouched'); the engine's interpolation of them is pinned by the repository's own test and reported under the single signature bracket/value-interpolated (switch: c14JudgeBracketMustache)",
			"at most 12 violations per signature and worker process are recorded, the rest is counted in violations_not_recorded_beyond_cap",
		},
		MinNonTrivial: func(ctx core.Ctx) int { return 1000 },
	})
}

func (p *c14) ID() string { return "C14" }
func (p *c14) Rule() string {
	return "one element (tag rotating over div/span/a/input/p) inside a wrapper with 1..6 attributes. Exhaustive part: every ordered sequence of <=2 (quick; plus a seed-dependent quarter of the ordered triples) or <=3 (thorough) atoms out of a vocabulary of " + fmt.Sprint(len(c14Atoms())) + " attribute atoms (static incl. padded/special/empty/bare values, interpolated incl. class/style, :/v-bind: bound with values of every truthiness incl. collisions with static names in both orders, a binding written as one mustache (:title=\"{{ v }}\"), class/style object syntax with quoted/unquoted/camelCase/--custom keys and literal/variable/expression values incl. ':' and ',', v-show, bracketed with and without {{ }}, v-if/v-else-if/v-else/v-for/v-html/v-text/v-once), invalid combinations (duplicate static names, two conditionals, ...) skipped; random part: 4..6 attributes drawn by a seeded generator from the larger vocabulary (all Go value kinds, random object literals). Non-trivial = every non-skipped case (each has at least one attribute whose output is decided by the model); distinct by (attributes, data)"
}

// counts: n atoms; tri = number of ordered triples visited (all of them in the
// thorough tier, a quarter in the quick tier, chosen by a seed-dependent
// bijection of the triple space so that every atom meets every position).
func (p *c14) counts(ctx core.Ctx) (n, tri, ex, rnd int) {
	n = len(c14Atoms())
	tri = n * n * n
	if !ctx.Thorough() {
		tri /= 4
	}
	ex = n + n*n + tri
	rnd = ctx.Pick(60000, 1500000)
	return
}

func (p *c14) Plan(ctx core.Ctx) int {
	_, _, ex, rnd := p.counts(ctx)
	return ex + rnd
}

func (p *c14) Gen(ctx core.Ctx, i int) any {
	n, _, ex, _ := p.counts(ctx)
	atoms := c14Atoms()
	if i < 0 {
		return c14Case{Part: "none", Skip: "no-case"}
	}
	tag := c14Tags[(i+int(ctx.Seed%5))%len(c14Tags)]
	if i >= ex {
		return c14Random(ctx, i-ex, tag)
	}
	var idx []int
	part := "ex1"
	switch {
	case i < n:
		idx = []int{i}
	case i < n+n*n:
		j := i - n
		idx = []int{j / n, j % n}
		part = "ex2"
	default:
		j := i - n - n*n
		if !ctx.Thorough() {
			// 1000003 is prime and does not divide n: j -> j*1000003+c is a bijection of [0, n^3)
			n3 := uint64(n * n * n)
			j = int((uint64(j)*1000003 + (ctx.Seed%n3)*7919) % n3)
		}
		idx = []int{j / (n * n), (j / n) % n, j % n}
		part = "ex3"
	}
	c := c14Case{Part: part, Tag: tag, Vars: map[string]TV{}}
	for pos, k := range idx {
		c.Attrs = append(c.Attrs, c14Inst(atoms[k], pos, c.Vars))
	}
	if why := c14Invalid(c.Attrs); why != "" {
		return c14Case{Part: part, Skip: why}
	}
	c14FixTag(&c)
	return c
}

func c14FixTag(c *c14Case) {
	if c.Tag != "input" {
		return
	}
	for _, a := range c.Attrs {
		if a.K == "dir" && (a.N == "v-html" || a.N == "v-text") {
			c.Tag = "div"
		}
	}
}

func (p *c14) Decode(raw json.RawMessage) (any, error) { return core.JSONDecode[c14Case](raw) }

// ---------------------------------------------------------------------------
// random part

func c14Random(ctx core.Ctx, j int, tag string) c14Case {
	r := core.NewRNG(ctx.Seed, 0xC14, uint64(j))
	c := c14Case{Part: "rand", Tag: tag, Vars: map[string]TV{}}
	want := 4 + r.Intn(3)
	nv := 0
	newVar := func(v TV) string {
		name := fmt.Sprintf("v%d", nv)
		nv++
		c.Vars[name] = v
		return name
	}
	expr := func(forms string) c14Expr {
		// forms: subset of "vpngec" (var path not gt eq cat)
		f := forms[r.Intn(len(forms))]
		switch f {
		case 'p':
			return c14Expr{F: "path", V: newVar(core.Pick(r, c14Vals))}
		case 'n':
			return c14Expr{F: "not", V: newVar(core.Pick(r, c14Vals))}
		case 'g':
			l := tvI(3)
			return c14Expr{F: "gt", V: newVar(tvI(r.Intn(7))), L: &l}
		case 'e':
			l := tvS("x")
			return c14Expr{F: "eq", V: newVar(core.Pick(r, []TV{tvS("x"), tvS("y"), tvS("")})), L: &l}
		case 'c':
			l := tvS("-x")
			return c14Expr{F: "cat", V: newVar(core.Pick(r, []TV{tvS("str"), tvS(""), tvS("a b")})), L: &l}
		}
		return c14Expr{F: "var", V: newVar(core.Pick(r, c14Vals))}
	}
	pfx := func() string {
		if r.Chance(1, 3) {
			return "v-bind:"
		}
		return ":"
	}
	gen := func() c14Attr {
		switch k := r.Intn(100); {
		case k < 16: // static
			n := core.Pick(r, append(append([]string{}, c14StaticNames...), "class", "style", "class", "style"))
			switch n {
			case "class":
				return c14Attr{K: "static", N: n, S: core.Pick(r, c14StaticClass)}
			case "style":
				return c14Attr{K: "static", N: n, S: core.Pick(r, c14StaticStyle)}
			}
			if r.Chance(1, 10) {
				return c14Attr{K: "static", N: n, Bare: true}
			}
			return c14Attr{K: "static", N: n, S: core.Pick(r, c14StaticVals)}
		case k < 26: // interpolated
			n := core.Pick(r, append(append([]string{}, c14StaticNames...), "class", "style"))
			switch n {
			case "class":
				return c14Attr{K: "interp", N: n, S: "s1 c-{{ " + newVar(core.Pick(r, []TV{tvS("dyn"), tvI(3)})) + " }}"}
			case "style":
				if r.Bool() {
					return c14Attr{K: "interp", N: n, S: "color: {{ " + newVar(tvS("green")) + " }}; margin: 0"}
				}
				return c14Attr{K: "interp", N: n, S: "{{ " + newVar(core.Pick(r, []TV{tvS("color: green"), tvS("color: green; margin: 0")})) + " }}"}
			}
			t := core.Pick(r, []string{"{{ $ }}", "a {{ $ }} b", "pre-{{ $ }}", "{{$}}{{ $$ }}", "{{ o.$ }} z"})
			t = strings.ReplaceAll(t, "$$", newVar(core.Pick(r, c14InterpScalars)))
			t = strings.ReplaceAll(t, "$", newVar(core.Pick(r, c14InterpScalars)))
			return c14Attr{K: "interp", N: n, S: t}
		case k < 50: // bound generic
			e := expr("vvvvvvppgec")
			return c14Attr{K: "bound", P: pfx(), N: core.Pick(r, c14BoundNames), E: &e}
		case k < 62: // bound class
			if r.Chance(1, 3) {
				e := c14Expr{F: core.Pick(r, []string{"var", "path"}), V: newVar(core.Pick(r, c14BoundClassStr))}
				return c14Attr{K: "bound", P: pfx(), N: "class", E: &e}
			}
			a := c14Attr{K: "cobj", P: pfx(), N: "class", Sp: r.Chance(1, 4), Nl: r.Chance(1, 6)}
			for _, ki := range r.Perm(len(c14ClassKeys))[:1+r.Intn(4)] {
				key := c14ClassKeys[ki]
				q := ""
				if strings.Contains(key, "-") || r.Chance(1, 4) {
					q = "'"
					if r.Chance(1, 6) {
						q = `"`
					}
				}
				var e c14Expr
				switch x := r.Intn(10); {
				case x < 5:
					e = expr("vvp")
				case x < 7:
					e = c14Lit(core.Pick(r, []TV{tvB(true), tvB(false), tvI(1), tvI(0), tvS("s"), tvS(""), tvF(0.5), tvS("x,y"), tvS("a:b"), tvS("0")}))
				case x < 8:
					e = c14Expr{F: "not", V: newVar(tvB(r.Bool()))}
				default:
					e = expr("ge")
				}
				a.Ents = append(a.Ents, c14Ent{Key: key, Q: q, E: e})
			}
			return a
		case k < 74: // bound style
			if r.Chance(1, 4) {
				e := c14Expr{F: core.Pick(r, []string{"var", "path"}), V: newVar(core.Pick(r, c14BoundStyleStr))}
				return c14Attr{K: "bound", P: pfx(), N: "style", E: &e}
			}
			a := c14Attr{K: "sobj", P: pfx(), N: "style", Sp: r.Chance(1, 4), Nl: r.Chance(1, 6)}
			seen := map[string]bool{}
			for _, ki := range r.Perm(len(c14StyleKeys))[:1+r.Intn(4)] {
				key := c14StyleKeys[ki]
				if key == "display" && !r.Chance(1, 3) {
					continue
				}
				if seen[c14Kebab(key)] {
					continue
				}
				seen[c14Kebab(key)] = true
				q := ""
				if strings.Contains(key, "-") || r.Chance(1, 5) {
					q = "'"
					if r.Chance(1, 6) {
						q = `"`
					}
				}
				var e c14Expr
				switch x := r.Intn(10); {
				case x < 6:
					e = c14Expr{F: core.Pick(r, []string{"var", "var", "path"}), V: newVar(core.Pick(r, c14StyleVals))}
				case x < 9:
					e = c14Lit(core.Pick(r, []TV{tvS("red"), tvS("12px"), tvS("1px, 2px"), tvS("a:b"), tvI(0), tvI(5), tvF(0.5), tvS("url(x)")}))
				default:
					l := tvS("px")
					e = c14Expr{F: "cat", V: newVar(core.Pick(r, []TV{tvS("10"), tvS("2.5")})), L: &l}
				}
				a.Ents = append(a.Ents, c14Ent{Key: key, Q: q, E: e})
			}
			if len(a.Ents) == 0 {
				a.Ents = []c14Ent{{Key: "color", E: c14Lit(tvS("red"))}}
			}
			return a
		case k < 82: // v-show
			e := expr("vvvvpngge")
			return c14Attr{K: "show", E: &e}
		case k < 91: // bracketed
			n := core.Pick(r, c14BracketNames)
			if r.Chance(1, 12) {
				return c14Attr{K: "bracket", N: n, Bare: true}
			}
			s := core.Pick(r, c14BracketVals)
			if strings.Contains(s, "$") {
				s = strings.ReplaceAll(s, "$", newVar(core.Pick(r, c14InterpScalars)))
			}
			return c14Attr{K: "bracket", N: n, S: s}
		default: // directive
			switch d := core.Pick(r, []string{"v-if", "v-if", "v-else-if", "v-else", "v-for", "v-for", "v-html", "v-text", "v-once"}); d {
			case "v-if", "v-else-if":
				truthy := []TV{tvB(true), tvI(1), tvS("x"), {K: "uint8", U: 2}, tvF(0.5), {K: "map"}}
				e := c14Expr{F: "var", V: newVar(core.Pick(r, truthy))}
				return c14Attr{K: "dir", N: d, E: &e}
			case "v-else", "v-once":
				return c14Attr{K: "dir", N: d, Bare: true}
			default:
				return c14Attr{K: "dir", N: d}
			}
		}
	}
	for tries := 0; len(c.Attrs) < want && tries < 40; tries++ {
		a := gen()
		next := append(append([]c14Attr{}, c.Attrs...), a)
		if c14Invalid(next) != "" {
			continue
		}
		c.Attrs = next
	}
	// drop variables of rejected candidates
	used := map[string]bool{}
	for _, a := range c.Attrs {
		for _, v := range c14VarsOf(a) {
			used[v] = true
		}
	}
	for k := range c.Vars {
		if !used[k] {
			delete(c.Vars, k)
		}
	}
	c14FixTag(&c)
	return c
}

func c14MustacheVars(s string) []string {
	var out []string
	for {
		i := strings.Index(s, "{{")
		if i < 0 {
			return out
		}
		j := strings.Index(s[i+2:], "}}")
		if j < 0 {
			return out
		}
		out = append(out, strings.TrimPrefix(strings.TrimSpace(s[i+2:i+2+j]), "o."))
		s = s[i+2+j+2:]
	}
}

func c14VarsOf(a c14Attr) []string {
	var out []string
	if a.E != nil && a.E.V != "" {
		out = append(out, a.E.V)
	}
	for _, e := range a.Ents {
		if e.E.V != "" {
			out = append(out, e.E.V)
		}
	}
	if a.K == "interp" || a.K == "bracket" {
		out = append(out, c14MustacheVars(a.S)...)
	}
	return out
}

// ---------------------------------------------------------------------------
// template construction

var c14Esc = strings.NewReplacer("&", "&amp;", `"`, "&quot;")

func c14ObjSrc(a c14Attr) string {
	colon, comma, open, cls := ": ", ", ", "{", "}"
	if a.Sp {
		colon, comma, open, cls = " : ", " , ", "{ ", " }"
	}
	if a.Nl {
		comma, open, cls = ",\n    ", "{\n    ", "\n  }"
	}
	var parts []string
	for _, e := range a.Ents {
		parts = append(parts, e.Q+e.Key+e.Q+colon+c14ExprSrc(e.E))
	}
	return open + strings.Join(parts, comma) + cls
}

func c14AttrSrc(a c14Attr) string {
	q := func(name, val string) string { return name + `="` + c14Esc.Replace(val) + `"` }
	switch a.K {
	case "static", "interp":
		if a.Bare {
			return a.N
		}
		return q(a.N, a.S)
	case "bound":
		return q(a.P+a.N, c14ExprSrc(*a.E))
	case "cobj", "sobj":
		return q(a.P+a.N, c14ObjSrc(a))
	case "show":
		return q("v-show", c14ExprSrc(*a.E))
	case "bracket":
		if a.Bare {
			return "[" + a.N + "]"
		}
		return q("["+a.N+"]", a.S)
	case "dir":
		switch a.N {
		case "v-if", "v-else-if":
			return q(a.N, c14ExprSrc(*a.E))
		case "v-for":
			return q(a.N, "it in items")
		case "v-html", "v-text":
			return q(a.N, "h")
		}
		return a.N
	}
	return ""
}

func c14HasDir(c c14Case, names ...string) bool {
	for _, a := range c.Attrs {
		if a.K == "dir" {
			for _, n := range names {
				if a.N == n {
					return true
				}
			}
		}
	}
	return false
}

func c14Build(c c14Case) (string, map[string]any) {
	var b strings.Builder
	b.WriteString(`<section data-m="wrap"><i data-m="pre">p</i>`)
	if c14HasDir(c, "v-else-if", "v-else") {
		b.WriteString(`<b v-if="zz" data-m="dead">d</b>`)
	}
	b.WriteString("<" + c.Tag)
	for _, a := range c.Attrs {
		b.WriteString(" " + c14AttrSrc(a))
	}
	b.WriteString(">")
	if c.Tag != "input" {
		b.WriteString("x</" + c.Tag + ">")
	}
	b.WriteString(`<i data-m="post">q</i></section>`)
	data := map[string]any{"items": []any{1, 2}, "h": "<b>hh</b>"}
	o := map[string]any{}
	for k, v := range c.Vars {
		if v.K == "missing" {
			continue
		}
		data[k] = v.Go()
		o[k] = v.Go()
	}
	data["o"] = o
	return b.String(), data
}

// ---------------------------------------------------------------------------
// reference model

func c14Interp(s string, vars map[string]TV) string {
	var b strings.Builder
	for {
		i := strings.Index(s, "{{")
		if i < 0 {
			break
		}
		j := strings.Index(s[i+2:], "}}")
		if j < 0 {
			break
		}
		b.WriteString(s[:i])
		name := strings.TrimPrefix(strings.TrimSpace(s[i+2:i+2+j]), "o.")
		if v, ok := vars[name]; ok {
			b.WriteString(c14Form(v))
		}
		s = s[i+2+j+2:]
	}
	b.WriteString(s)
	return b.String()
}

// c14SplitDecls splits a style value at the semicolons that end a declaration:
// not those inside parentheses (url(data:image/png;base64,...)) or quotes.
func c14SplitDecls(s string) []string {
	var out []string
	depth, quote, start := 0, byte(0), 0
	for i := 0; i < len(s); i++ {
		ch := s[i]
		switch {
		case quote != 0:
			if ch == quote {
				quote = 0
			}
		case ch == '"' || ch == '\'':
			quote = ch
		case ch == '(':
			depth++
		case ch == ')' && depth > 0:
			depth--
		case ch == ';' && depth == 0:
			out = append(out, s[start:i])
			start = i + 1
		}
	}
	return append(out, s[start:])
}

// c14Decls parses a style attribute value into an ordered declaration list
// (later duplicates override, as in CSS).
func c14Decls(s string) ([]string, map[string]string) {
	var keys []string
	vals := map[string]string{}
	for _, part := range c14SplitDecls(s) {
		part = strings.TrimSpace(part)
		if part == "" {
			continue
		}
		k, v, ok := strings.Cut(part, ":")
		if !ok {
			k, v = part, "\x00no-colon"
		}
		k = strings.TrimSpace(k)
		if _, dup := vals[k]; !dup {
			keys = append(keys, k)
		}
		vals[k] = strings.TrimSpace(v)
	}
	return keys, vals
}

type c14BoundVal struct {
	v      TV
	truthy bool
	form   string
}

type c14Want struct {
	// generic names
	static  map[string]string // value of the static / interpolated attribute
	origin  map[string]string // static | interp (for names in static)
	bounds  map[string][]c14BoundVal
	bracket map[string]c14Attr
	order   []string // names of static-origin attributes in source order
	// class
	hasStaticClass, hasBoundClass bool
	staticTokens, boundTokens     []string
	classDQ                       bool // a double-quoted object key contributes
	// style
	hasStaticStyle, hasBoundStyle bool
	styleStatic, styleBound       map[string]string
	styleSkip                     map[string]string // property -> why not judged
	styleValClass                 map[string]string
	styleDQ                       map[string]bool
	styleCamel                    map[string]string // kebab -> key as written, when different
	show                          string            // "" | hidden | visible
	undecided                     string
}

func c14Model(c c14Case) c14Want {
	w := c14Want{
		static: map[string]string{}, origin: map[string]string{}, bounds: map[string][]c14BoundVal{}, bracket: map[string]c14Attr{},
		styleStatic: map[string]string{}, styleBound: map[string]string{}, styleSkip: map[string]string{}, styleValClass: map[string]string{},
		styleDQ: map[string]bool{}, styleCamel: map[string]string{},
	}
	for _, a := range c.Attrs {
		switch a.K {
		case "static", "interp":
			val := a.S
			if a.K == "interp" {
				val = c14Interp(a.S, c.Vars)
			}
			w.order = append(w.order, a.N)
			w.static[a.N] = val
			w.origin[a.N] = a.K
			switch a.N {
			case "class":
				w.hasStaticClass = true
				w.staticTokens = strings.Fields(val)
			case "style":
				w.hasStaticStyle = true
				_, w.styleStatic = c14Decls(val)
			}
		case "bracket":
			w.bracket[a.N] = a
		case "bound":
			v, ok := c14Eval(*a.E, c.Vars)
			if !ok {
				w.undecided = "bound-value"
				continue
			}
			t, _ := v.Truthy()
			switch a.N {
			case "class":
				w.hasBoundClass = true
				if t {
					w.boundTokens = append(w.boundTokens, strings.Fields(c14Form(v))...)
				}
			case "style":
				w.hasBoundStyle = true
				if t {
					_, m := c14Decls(c14Form(v))
					for k, x := range m {
						w.styleBound[k] = x
						w.styleValClass[k] = "string-binding"
					}
				}
			default:
				w.bounds[a.N] = append(w.bounds[a.N], c14BoundVal{v: v, truthy: t, form: c14Form(v)})
			}
		case "cobj":
			w.hasBoundClass = true
			for _, e := range a.Ents {
				v, ok := c14Eval(e.E, c.Vars)
				if !ok {
					w.undecided = "class-object-value"
					continue
				}
				if t, _ := v.Truthy(); t {
					w.boundTokens = append(w.boundTokens, e.Key)
					if e.Q == `"` {
						w.classDQ = true
					}
				}
			}
		case "sobj":
			w.hasBoundStyle = true
			for _, e := range a.Ents {
				k := c14Kebab(e.Key)
				if k != e.Key {
					w.styleCamel[k] = e.Key
				}
				if e.Q == `"` {
					w.styleDQ[k] = true
				}
				v, ok := c14Eval(e.E, c.Vars)
				switch {
				case !ok:
					w.styleSkip[k] = "undecided"
				case v.K == "nil" || v.K == "missing" || v.K == "bool" || (v.K == "string" && strings.TrimSpace(v.S) == ""):
					w.styleSkip[k] = "empty-nil-or-bool-value"
				case strings.Contains(c14Form(v), ";"):
					w.styleSkip[k] = "value-with-semicolon"
				default:
					f := c14Form(v)
					w.styleBound[k] = strings.TrimSpace(f)
					switch {
					case strings.ContainsAny(f, `"'`):
						w.styleValClass[k] = "value-with-quote"
					case strings.Contains(f, ":"):
						w.styleValClass[k] = "value-with-colon"
					case strings.Contains(f, ","):
						w.styleValClass[k] = "value-with-comma"
					case v.K != "string":
						w.styleValClass[k] = "number"
					default:
						w.styleValClass[k] = "plain"
					}
				}
			}
		case "show":
			v, ok := c14Eval(*a.E, c.Vars)
			if !ok {
				w.undecided = "v-show-value"
				continue
			}
			if t, _ := v.Truthy(); t {
				w.show = "visible"
			} else {
				w.show = "hidden"
			}
		}
	}
	return w
}

var c14Directives = map[string]bool{
	"v-if": true, "v-else-if": true, "v-else": true, "v-for": true, "v-show": true, "v-html": true, "v-text": true,
	"v-once": true, "v-pre": true, "v-keep": true, "v-bind": true,
}
var c14Internal = map[string]bool{"v-once-id": true, "data-v-html-content": true, "data-v-text-content": true}

// per-process cap on recorded violations per signature (the rest is counted only)
var (
	c14Mu      sync.Mutex
	c14SigSeen = map[string]int{}
)

const c14SigCap = 12

func c14PathClass(c c14Case) string {
	f := c14HasDir(c, "v-for")
	ch := c14HasDir(c, "v-if", "v-else-if", "v-else")
	switch {
	case f && ch:
		return "for+chain"
	case f:
		return "for"
	case ch:
		return "chain"
	}
	return "plain"
}

type c14Rec struct {
	o    *core.Obs
	c    c14Case
	tpl  string
	data map[string]any
	out  string
}

func (r *c14Rec) fail(sig, format string, args ...any) {
	c14Mu.Lock()
	c14SigSeen[sig]++
	n := c14SigSeen[sig]
	c14Mu.Unlock()
	if n > c14SigCap {
		r.o.Count("violations_not_recorded_beyond_cap", 1)
		return
	}
	vars := make([]string, 0, len(r.c.Vars))
	for _, k := range sortedKeys(r.c.Vars) {
		vars = append(vars, k+"="+r.c.Vars[k].String())
	}
	r.o.Fail(r.c, sig, "%s\ntemplate: %s\ndata: %s (also under o.)\noutput: %s", fmt.Sprintf(format, args...), r.tpl, strings.Join(vars, " "), clip(strings.TrimSpace(r.out), 600))
}

func c14Trimmed(want, got string) bool { return want != got && strings.TrimSpace(want) == got }

func c14TokensEqual(a, b []string) bool {
	if len(a) != len(b) {
		return false
	}
	for i := range a {
		if a[i] != b[i] {
			return false
		}
	}
	return true
}

func c14Bag(xs []string) map[string]int {
	m := map[string]int{}
	for _, x := range xs {
		m[x]++
	}
	return m
}

// c14Compare applies the reference model to one rendered instance of the element.
func c14Compare(r *c14Rec, el *oracle.N, w c14Want, path string) {
	got := map[string]string{}
	var gotOrder []string
	for _, a := range el.Attrs {
		if _, dup := got[a.K]; !dup {
			got[a.K] = a.V
			gotOrder = append(gotOrder, a.K)
		}
	}
	accounted := map[string]bool{}
	o := r.o

	// 1. generic names: static, interpolated, bound and their collisions
	names := map[string]bool{}
	for n := range w.static {
		if n != "class" && n != "style" {
			names[n] = true
		}
	}
	for n := range w.bounds {
		names[n] = true
	}
	for _, n := range sortedKeys(names) {
		accounted[n] = true
		st, hasSt := w.static[n]
		bs := w.bounds[n]
		var forms []string
		var firstT, firstF *c14BoundVal
		for i := range bs {
			if bs[i].truthy {
				forms = append(forms, bs[i].form)
				if firstT == nil {
					firstT = &bs[i]
				}
			} else if firstF == nil {
				firstF = &bs[i]
			}
		}
		inForms := func(s string) bool {
			for _, f := range forms {
				if f == s {
					return true
				}
			}
			return false
		}
		gv, present := got[n]
		switch {
		case hasSt && len(bs) == 0:
			org := w.origin[n]
			o.Cell("judged/" + org)
			switch {
			case !present:
				r.fail(org+"/missing", "%s attribute %s=%q is missing from the output", org, n, st)
			case gv == st:
			case c14Trimmed(st, gv):
				r.fail(org+"/value-whitespace-trimmed", "%s attribute %s: want the value unchanged %q, got %q", org, n, st, gv)
			case org == "static":
				r.fail("static/value-changed", "static attribute %s: want %q, got %q", n, st, gv)
			default:
				r.fail("interp/wrong-value", "interpolated attribute %s: want %q, got %q", n, st, gv)
			}
		case !hasSt && len(forms) == 0:
			o.Cell("judged/bound-falsy/" + c14ValClass(firstF.v))
			if present {
				r.fail("bound/falsy-emitted/"+c14ValGroup(firstF.v), "bound attribute %s has the falsy value %s: want it omitted, got %s=%q", n, firstF.v, n, gv)
			}
		case !hasSt:
			o.Cell("judged/bound-truthy/" + c14ValClass(firstT.v))
			if len(bs) > 1 {
				o.Cell("judged/bound-bound-same-name")
			}
			switch {
			case !present:
				r.fail("bound/truthy-omitted/"+c14ValGroup(firstT.v), "bound attribute %s has the truthy value %s: want %s=%q, attribute is missing", n, firstT.v, n, firstT.form)
			case !inForms(gv):
				r.fail("bound/wrong-string-form/"+c14ValGroup(firstT.v), "bound attribute %s with value %s: want %q, got %q", n, firstT.v, forms, gv)
			}
		case len(forms) == 0: // static + only falsy bound values
			o.Cell("judged/collision/falsy-bound")
			switch {
			case !present:
				r.fail("collision/static-dropped-by-falsy-bound", "static %s=%q with a falsy binding of the same name (%s): the static attribute must pass through, it is missing", n, st, firstF.v)
			case gv == st:
			case c14Trimmed(st, gv):
				r.fail(w.origin[n]+"/value-whitespace-trimmed", "%s attribute %s (falsy binding of the same name): want the value unchanged %q, got %q", w.origin[n], n, st, gv)
			default:
				r.fail("collision/static-changed-by-falsy-bound", "static %s=%q with a falsy binding of the same name (%s): want %q, got %q", n, st, firstF.v, st, gv)
			}
		default: // static + truthy bound
			o.Cell("judged/collision/truthy-bound")
			switch {
			case !present:
				r.fail("collision/attribute-missing", "static %s=%q with a truthy binding (%s): attribute is missing", n, st, firstT.v)
			case inForms(gv):
			case gv == st || c14Trimmed(st, gv):
				r.fail("collision/static-wins-over-truthy-bound", "static %s=%q with a truthy binding (%s): want the bound value %q, got the static %q", n, st, firstT.v, forms, gv)
			default:
				r.fail("collision/wrong-value", "static %s=%q with a truthy binding (%s): want %q, got %q", n, st, firstT.v, forms, gv)
			}
		}
	}

	// 2. bracketed attributes
	for _, n := range sortedKeys(w.bracket) {
		a := w.bracket[n]
		accounted[n] = true
		want := a.S
		mustache := strings.Contains(a.S, "{{")
		gv, present := got[n]
		switch {
		case !present:
			if _, raw := got["["+n+"]"]; raw {
				accounted["["+n+"]"] = true
				r.fail("bracket/not-unwrapped", "bracketed [%s] must appear as %s, the brackets are still there", n, n)
			} else {
				r.fail("bracket/missing", "bracketed [%s]=%q must appear as %s=%q, attribute is missing", n, want, n, want)
			}
		case gv == want:
			if mustache {
				o.Cell("judged/bracket/mustache")
			} else {
				o.Cell("judged/bracket/plain")
			}
		case mustache && (gv == c14Interp(a.S, r.c.Vars) || gv == strings.TrimSpace(c14Interp(a.S, r.c.Vars))):
			if c14JudgeBracketMustache {
				o.Cell("judged/bracket/mustache")
				r.fail("bracket/value-interpolated", "bracketed [%s]=%q must appear with its value untouched, got %s=%q ({{ }} was evaluated)", n, want, n, gv)
			} else {
				o.Cell("not-judged/bracket-mustache-value")
			}
		case c14Trimmed(want, gv):
			o.Cell("judged/bracket/plain")
			r.fail("bracket/value-whitespace-trimmed", "bracketed [%s]=%q must appear with its value untouched, got %s=%q", n, want, n, gv)
		default:
			r.fail("bracket/value-changed", "bracketed [%s]=%q must appear with its value untouched, got %s=%q", n, want, n, gv)
		}
	}

	// 3. class
	if w.hasStaticClass || w.hasBoundClass {
		accounted["class"] = true
		wantTok := append(append([]string{}, w.staticTokens...), w.boundTokens...)
		gv, present := got["class"]
		gotTok := strings.Fields(gv)
		kind := "bound-only"
		if w.hasStaticClass && w.hasBoundClass {
			kind = "static+bound"
		} else if w.hasStaticClass {
			kind = "static-only"
		}
		o.Cell("judged/class/" + kind)
		switch {
		case w.hasStaticClass && !present:
			r.fail("class/static-attribute-lost", "static class %q must pass through, the class attribute is missing", w.static["class"])
		case c14TokensEqual(wantTok, gotTok):
		default:
			sig := "class/token-order"
			stripped := make([]string, len(gotTok))
			for i, t := range gotTok {
				stripped[i] = strings.Trim(t, `"`)
			}
			wb, gb := c14Bag(wantTok), c14Bag(gotTok)
			sb := c14Bag(w.staticTokens)
			switch {
			case w.classDQ && c14TokensEqual(wantTok, stripped):
				sig = "class/object-key-double-quoted"
			default:
				for t, n := range wb {
					if gb[t] < n {
						if sb[t] > 0 {
							sig = "class/static-token-lost"
						} else if !strings.HasPrefix(sig, "class/static-token-lost") {
							sig = "class/bound-token-missing"
							// what is special about the object literal, if anything
							for _, a := range r.c.Attrs {
								for _, e := range a.Ents {
									if a.K == "cobj" && (e.E.F == "max" || e.E.F == "min") {
										sig = "class/bound-token-missing/call-with-comma-in-object"
									}
								}
							}
							if strings.Contains(t, ":") {
								sig = "class/bound-token-missing/key-with-colon"
							}
						}
					}
				}
				if sig == "class/token-order" {
					for t, n := range gb {
						if wb[t] < n {
							sig = "class/extra-token"
						}
					}
				}
			}
			if sig != "class/object-key-double-quoted" {
				sig += "/" + kind
			}
			r.fail(sig, "class: want tokens %q (static %q then bound %q), got %q", wantTok, w.staticTokens, w.boundTokens, gotTok)
		}
	}

	// 4. style and v-show
	if w.hasStaticStyle || w.hasBoundStyle || w.show != "" {
		accounted["style"] = true
		merged := map[string]string{}
		for k, v := range w.styleStatic {
			merged[k] = v
		}
		for k, v := range w.styleBound {
			merged[k] = v
		}
		_, boundDisplay := w.styleBound["display"]
		if _, skipped := w.styleSkip["display"]; skipped {
			boundDisplay = true
		}
		if w.show == "hidden" {
			merged["display"] = "none"
		}
		gv, present := got["style"]
		_, gm := c14Decls(gv)
		// an expected key that arrives written differently (quotes kept, camelCase kept) is
		// reported once under its own signature and taken out of the comparison
		excluded := map[string]bool{}
		for _, gk := range sortedKeys(gm) {
			if bare := strings.Trim(gk, `"'`); bare != gk && w.styleDQ[c14Kebab(bare)] {
				excluded[c14Kebab(bare)] = true
				r.fail("style/object-key-double-quoted", "style object key %s is emitted with its quotes: got %q", gk, gv)
				delete(gm, gk)
				continue
			}
			for k, camel := range w.styleCamel {
				if camel == gk {
					excluded[k] = true
					r.fail("style/key-not-kebab", "style object key %s must be emitted as %s: got %q", camel, k, gv)
					delete(gm, gk)
				}
			}
		}
		if w.hasStaticStyle || w.hasBoundStyle {
			kind := "bound-only"
			if w.hasStaticStyle && w.hasBoundStyle {
				kind = "static+bound"
			} else if w.hasStaticStyle {
				kind = "static-only"
			}
			o.Cell("judged/style/" + kind)
		}
		if w.show != "" {
			o.Cell("judged/v-show/" + w.show + "/" + path)
			if boundDisplay {
				o.Cell("judged/v-show/" + w.show + "+bound-display")
			}
		}
		semi := false
		for k, why := range w.styleSkip {
			o.Cell("not-judged/style-object/" + why)
			if why == "value-with-semicolon" {
				semi = true
			}
			if k == "display" && w.show != "hidden" {
				delete(merged, k)
			}
		}
		detail := func() string {
			return fmt.Sprintf("style: want declarations %v (static %v, bound %v, v-show %q), got %q", c14MapStr(merged), c14MapStr(w.styleStatic), c14MapStr(w.styleBound), w.show, gv)
		}
		if w.hasStaticStyle && !present {
			r.fail("style/static-attribute-lost", "static style %q must pass through, the style attribute is missing", w.static["style"])
		}
		mangled := false // a camelCase key went missing: an unexpected declaration is most likely its mangled form
		for _, k := range sortedKeys(merged) {
			wantV := merged[k]
			_, skip := w.styleSkip[k]
			if (skip || excluded[k]) && !(k == "display" && w.show == "hidden") {
				continue
			}
			_, inB := w.styleBound[k]
			sv, inS := w.styleStatic[k]
			gvv, ok := gm[k]
			switch {
			case ok && gvv == wantV:
			case !ok && k == "display" && w.show == "hidden":
				r.fail("vshow/display-none-missing/"+path, "v-show is falsy: want display:none. %s", detail())
			case !ok && inB:
				sig := "style/bound-declaration-missing/" + w.styleValClass[k]
				if _, camel := w.styleCamel[k]; camel {
					sig = "style/bound-declaration-missing/camelCase-key"
					mangled = true
				}
				r.fail(sig, "bound style declaration %s:%s is missing. %s", k, wantV, detail())
			case !ok:
				sig := "style/static-declaration-lost"
				if w.origin["style"] == "interp" {
					sig += "/interpolated"
				}
				if w.show == "hidden" {
					sig += "/with-v-show-falsy"
				}
				r.fail(sig, "static style declaration %s:%s is missing. %s", k, wantV, detail())
			case k == "display" && w.show == "hidden":
				sig := "vshow/display-none-wrong-value/" + path
				if boundDisplay {
					sig = "vshow/display-none-overridden-by-bound-style"
				}
				r.fail(sig, "v-show is falsy: want display:none, got display:%s. %s", gvv, detail())
			case inB && inS && gvv == sv:
				r.fail("style/static-wins-over-bound", "declaration %s: the bound value %q must override the static %q. %s", k, wantV, sv, detail())
			case inB:
				r.fail("style/wrong-value/"+w.styleValClass[k], "declaration %s: want %q, got %q. %s", k, wantV, gvv, detail())
			default:
				r.fail("style/static-value-changed", "static declaration %s: want %q, got %q. %s", k, wantV, gvv, detail())
			}
		}
		for _, k := range sortedKeys(gm) {
			if _, ok := merged[k]; ok {
				continue
			}
			if _, skip := w.styleSkip[k]; skip {
				continue
			}
			switch {
			case k == "display" && gm[k] == "none":
				r.fail("vshow/spurious-display-none/"+path, "display:none without a falsy v-show. %s", detail())
			case semi || mangled:
			default:
				known := false
				for sk := range w.styleSkip { // a not-judged property written differently
					if w.styleCamel[sk] == k || c14Kebab(strings.Trim(k, `"'`)) == sk {
						known = true
					}
				}
				if !known {
					r.fail("style/extra-declaration", "unexpected declaration %s:%s. %s", k, gm[k], detail())
				}
			}
		}
	}

	// 5. names nobody asked for
	for _, n := range gotOrder {
		if accounted[n] {
			continue
		}
		switch {
		case strings.HasPrefix(n, "["):
			r.fail("bracket/not-unwrapped", "attribute %q in the output", n)
		case c14Directives[n]:
			r.fail("directive-leak/"+n+"/"+path, "directive attribute %s=%q appears in the output", n, got[n])
		case strings.HasPrefix(n, ":") || strings.HasPrefix(n, "v-bind:"):
			r.fail("directive-leak/bound-syntax/"+path, "binding attribute %s=%q appears in the output", n, got[n])
		case c14Internal[n]:
			r.fail("internal-attr-leak/"+n, "internal attribute %s appears in the output", n)
		case n == "class" || n == "style":
			r.fail(n+"/spurious-attribute", "%s=%q although the element has no %s source", n, got[n], n)
		default:
			r.fail("extra-attr", "attribute %s=%q has no source on the element", n, got[n])
		}
	}
	o.Cell("judged/no-directive-leak/" + path)

	// 6. static attributes in place: relative order of the static-origin names
	var wantSeq, gotSeq []string
	inStatic := map[string]bool{}
	for _, n := range w.order {
		if _, ok := got[n]; ok {
			wantSeq = append(wantSeq, n)
			inStatic[n] = true
		}
	}
	for _, n := range gotOrder {
		if inStatic[n] {
			gotSeq = append(gotSeq, n)
		}
	}
	if len(wantSeq) > 1 {
		o.Cell("judged/static-order")
		if !c14TokensEqual(wantSeq, gotSeq) {
			r.fail("static/order", "static attributes out of place: source order %v, output order %v", wantSeq, gotSeq)
		}
	}
}

func c14MapStr(m map[string]string) string {
	var parts []string
	for _, k := range sortedKeys(m) {
		parts = append(parts, k+":"+m[k])
	}
	return "{" + strings.Join(parts, "; ") + "}"
}

func (p *c14) Exec(ctx core.Ctx, cc any) core.Obs {
	c := cc.(c14Case)
	var o core.Obs
	if c.Skip != "" || len(c.Attrs) == 0 {
		o.Cell("skipped/" + c.Part)
		return o
	}
	tpl, data := c14Build(c)
	w := c14Model(c)
	path := c14PathClass(c)
	if w.undecided != "" {
		o.Cell("not-judged/undecided-" + w.undecided)
		return o
	}
	out, err := renderStr(tpl, data)
	o.Evals++
	o.NT(mustJSON(c.Attrs), mustJSON(c.Vars))
	r := &c14Rec{o: &o, c: c, tpl: tpl, data: data, out: out}
	if err != nil {
		r.fail("render-error/"+path, "render failed: %v", err)
		return o
	}
	doc := oracle.Parse(out, false)
	wraps := doc.ByAttr("data-m", "wrap")
	if len(wraps) != 1 {
		r.fail("precondition/wrapper", "wrapper element not found exactly once")
		return o
	}
	var els []*oracle.N
	for _, k := range wraps[0].Kids {
		if k.Kind == "el" && k.Name == c.Tag {
			els = append(els, k)
		}
	}
	wantN := 1
	if c14HasDir(c, "v-for") {
		wantN = 2
	}
	if len(els) != wantN {
		r.fail("precondition/element-count/"+path, "the element must be rendered %d time(s), found %d", wantN, len(els))
		if len(els) == 0 {
			return o
		}
	}
	if ms := wraps[0].ChildMarkers("data-m"); len(ms) != 2 || ms[0] != "pre" || ms[1] != "post" {
		r.fail("precondition/siblings/"+path, "sibling elements: want markers [pre post], got %v", ms)
	}
	for _, el := range els {
		c14Compare(r, el, w, path)
	}
	// coverage
	o.Cell(fmt.Sprintf("part/%s/attrs%d", c.Part, len(c.Attrs)))
	o.Cell("path/" + path)
	o.Cell("tag/" + c.Tag)
	kinds := map[string]bool{}
	for _, a := range c.Attrs {
		k := a.K
		switch a.K {
		case "dir":
			k = "dir/" + a.N
		case "bound":
			k = "bound/" + a.E.F
			if a.P == "v-bind:" {
				o.Cell("attr/bound-prefix/v-bind:")
			} else {
				o.Cell("attr/bound-prefix/:")
			}
		case "cobj", "sobj":
			for _, e := range a.Ents {
				kq := "unquoted"
				switch e.Q {
				case "'":
					kq = "single-quoted"
				case `"`:
					kq = "double-quoted"
				}
				o.Cell("attr/" + a.K + "/key/" + kq)
				o.Cell("attr/" + a.K + "/value/" + e.E.F)
				if a.K == "sobj" && c14Kebab(e.Key) != e.Key {
					o.Cell("attr/sobj/key/camelCase")
				}
				if strings.HasPrefix(e.Key, "--") {
					o.Cell("attr/sobj/key/--custom")
				}
			}
		}
		o.Cell("attr/" + k)
		kinds[a.K] = true
	}
	for i, a := range c.Attrs {
		if a.K != "bound" && a.K != "cobj" && a.K != "sobj" {
			continue
		}
		for j, b := range c.Attrs {
			if (b.K == "static" || b.K == "interp") && b.N == a.N {
				if j < i {
					o.Cell("collision/static-first/" + c14NameClass(a.N))
				} else {
					o.Cell("collision/bound-first/" + c14NameClass(a.N))
				}
			}
		}
	}
	if len(kinds) >= 5 && o.Sample == nil {
		o.Sample = map[string]any{"template": tpl, "vars": c.Vars, "output": strings.TrimSpace(out)}
	}
	return o
}

func c14NameClass(n string) string {
	if n == "class" || n == "style" {
		return n
	}
	return "other"
}
