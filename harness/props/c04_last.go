package props

import (
	"fmt"
	"strings"

	"verifharness/core"
	"verifharness/oracle"
)

// C04 "last" part: the loop is the LAST child of its parent (nothing after it,
// not even white space), it follows static text, and it produces nothing - an
// empty, nil or missing collection, every item rejected by v-if, or an empty
// inner collection of a nest. The parent must then hold the static text only:
// no instance, no unevaluated copy of the looped element.

type c04Last struct {
	Coll   string `json:"coll"`   // empty | nil | missing | rejected | inner-empty | one (control: one instance)
	Before string `json:"before"` // text | indent | text+el
	El     string `json:"el"`     // b | template | li
	Entry  string `json:"entry"`
}

// else-loop: the v-else sibling of the (empty / non-empty) loop is a loop itself
var c04LastColls = []string{"empty", "nil", "missing", "rejected", "inner-empty", "one", "else-loop-after-empty", "else-loop-after-items", "else-empty-loop-after-empty"}
var c04LastBefore = []string{"text", "indent", "text+el"}
var c04LastEls = []string{"b", "template", "li"}

func c04NLast() int { return len(c04LastColls) * len(c04LastBefore) * len(c04LastEls) * 3 }

func c04BuildLast(i int) c04Case {
	l := c04Last{Entry: []string{"str", "file", "vue"}[i%3]}
	i /= 3
	l.El = c04LastEls[i%len(c04LastEls)]
	i /= len(c04LastEls)
	l.Before = c04LastBefore[i%len(c04LastBefore)]
	i /= len(c04LastBefore)
	l.Coll = c04LastColls[i%len(c04LastColls)]
	return c04Case{Part: "last", Last: &l}
}

func c04ExecLast(c c04Case, o *core.Obs) {
	l := *c.Last
	data := map[string]any{"rows": []any{map[string]any{"cells": []any{}}}}
	cond := ""
	switch l.Coll {
	case "empty":
		data["xs"] = []any{}
	case "nil":
		data["xs"] = nil
	case "rejected":
		data["xs"] = []any{1, 2}
		cond = ` v-if="x > 5"`
	case "one":
		data["xs"] = []any{7}
	case "inner-empty":
		data["xs"] = []any{}
	}
	inst := `<i data-m="inst" :data-x="x">{{ x }}</i>`
	var loop string
	switch l.El {
	case "b":
		loop = `<b v-for="x in xs"` + cond + ` data-m="inst" :data-x="x">{{ x }}</b>`
	case "template":
		loop = `<template v-for="x in xs"` + cond + `>` + inst + `</template>`
	default:
		loop = `<li v-for="x in xs"` + cond + ` data-m="inst" :data-x="x">{{ x }}</li>`
	}
	before := map[string]string{"text": "label", "indent": "\n    ", "text+el": `<u data-m="u">u</u>tail text`}[l.Before]
	parent := "div"
	if l.El == "li" {
		parent = "ul"
	}
	tpl := `<` + parent + ` data-m="w">` + before + loop + `</` + parent + `><p data-m="after">after</p>`
	if l.Coll == "inner-empty" {
		// the empty loop is the last child of an outer loop's element
		inner := strings.ReplaceAll(loop, "in xs", "in r.cells")
		tpl = `<section data-m="w"><` + parent + ` v-for="r in rows" data-m="row">` + before + inner + `</` + parent + `></section><p data-m="after">after</p>`
	}
	elseWant := -1
	if strings.HasPrefix(l.Coll, "else-") {
		data["ys"] = []any{"p", "q"}
		switch l.Coll {
		case "else-loop-after-empty":
			data["xs"] = []any{}
			elseWant = 2
		case "else-loop-after-items":
			data["xs"] = []any{7}
			elseWant = 0
		default:
			data["xs"] = []any{}
			data["ys"] = []any{}
			elseWant = 0
		}
		el := map[string]string{"b": "b", "template": "b", "li": "li"}[l.El]
		tpl = `<` + parent + ` data-m="w">` + before + loop + `<` + el + ` v-else v-for="y in ys" data-m="alt">{{ y }}</` + el + `></` + parent + `><p data-m="after">after</p>`
	}
	var out string
	var err error
	switch l.Entry {
	case "file":
		out, err = renderFile(memFS(map[string]string{"t.vuego": tpl}), "t.vuego", data)
	case "vue":
		out, err = renderVue(memFS(map[string]string{"t.vuego": tpl}), "t.vuego", data)
	default:
		out, err = renderStr(tpl, data)
	}
	o.Evals++
	o.NT("last", mustJSON(l))
	o.Cell("part/last")
	o.Cell("last/collection/" + l.Coll)
	o.Cell("last/before/" + l.Before)
	sig := func(what string) string { return fmt.Sprintf("last/%s/%s/after-%s", what, l.Coll, l.Before) }
	detail := fmt.Sprintf("template: %s\noutput: %s", tpl, clip(out, 500))
	if err != nil {
		o.Fail(c, sig("error"), "render failed: %v\n%s", err, detail)
		return
	}
	want := 0
	if l.Coll == "one" || l.Coll == "else-loop-after-items" {
		want = 1
	}
	doc := oracle.ParseAuto(out)
	if got := len(doc.ByAttr("data-m", "inst")); got != want {
		o.Fail(c, sig("instance-count"), "the loop must produce %d instance(s), the output holds %d\n%s", want, got, detail)
		return
	}
	if strings.Contains(out, "{{") || strings.Contains(out, "v-for") || strings.Contains(out, ":data-x") {
		o.Fail(c, sig("unevaluated-source-in-output"), "template source (mustache / v-for / bound attribute) appears in the output\n%s", detail)
		return
	}
	if elseWant >= 0 {
		if got := len(doc.ByAttr("data-m", "alt")); got != elseWant {
			o.Fail(c, sig("else-loop-instances"), "the v-else sibling is a loop over %d item(s) and must render %d instance(s), the output holds %d\n%s", len(data["ys"].([]any)), elseWant, got, detail)
			return
		}
	}
	if len(doc.ByAttr("data-m", "after")) != 1 {
		o.Fail(c, sig("sibling-after-lost"), "the element after the parent is missing or repeated\n%s", detail)
	}
}
