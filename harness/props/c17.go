package props

import (
	"encoding/json"
	"errors"
	"fmt"
	"reflect"
	"runtime"
	"runtime/debug"
	"strings"
	"sync"

	vuego "github.com/titpetric/vuego"

	"verifharness/core"
)

// C17 — the variable stack is a faithful scope stack with Go-like path resolution.
//
// Parts (index space in this order):
//   seq   exhaustive operation sequences (11-letter alphabet, length 4 / 5) x 6 root configurations
//   path  every chain of <=2 / <=3 container kinds around every terminal value: all paths of the
//         value (valid and invalid steps) in 4 spellings, bound in the root map; then the chains of
//         length <=2 again in the 5 other binding modes (first three steps)
//   rseq  seeded random long sequences over several live stacks, with explicit observer operations
//   rpath seeded random nested values
//   reuse sequences in which the caller re-uses its own map objects for Push (run last)

type c17Op struct {
	Op    string   `json:"op"`
	St    int      `json:"st,omitempty"`
	Name  string   `json:"name,omitempty"`
	Names []string `json:"names,omitempty"`
	Val   int      `json:"val,omitempty"`
	Vals  []int    `json:"vals,omitempty"`
	Steps []string `json:"steps,omitempty"`
	Sp    int      `json:"sp,omitempty"`
	J     int      `json:"j,omitempty"`
	Light bool     `json:"light,omitempty"` // after this operation only Lookup and EnvMap are observed
}

type c17Case struct {
	Part string   `json:"part"` // seq | path | reuse
	Root int      `json:"root,omitempty"`
	Ops  []c17Op  `json:"ops,omitempty"`
	Full bool     `json:"full,omitempty"` // full observation of every live stack after every mutator
	Tree *c17Node `json:"tree,omitempty"`
	Mode int      `json:"mode,omitempty"`
	Max  int      `json:"max,omitempty"` // maximum number of steps of a path
	Embed *c17Embed `json:"embed,omitempty"`
}

type c17 struct{}

func init() {
	core.Register(&c17{}, core.Meta{
		Exhaustive: func(ctx core.Ctx) bool { return false },
		Assumptions: []string{
			"Pop is only issued while a pushed scope exists (an unmatched Pop is documented to drop the root)",
			"a nil element (nil map value, nil interface field) must come back as nil; whether it is flagged found or not found is not judged",
			"steps through map[int]T keys and promoted fields addressed by their JSON tag are only required not to panic and, if found, to be the right element",
			"EnvMap / Copy may represent a struct-typed field of the root data as a map: for such names only presence is judged",
			"typed getters are judged only where their documentation is definite (exact target type, absent/nil, slice/array conversion, map[string]string conversion)",
			"sync.Pool hands a map back to the goroutine that returned it (needed only to reach the caller-map aliasing; its absence can hide, never fabricate, a violation)",
		},
		MinNonTrivial: func(ctx core.Ctx) int { return 1000 },
	})
}

func (p *c17) ID() string { return "C17" }
func (p *c17) Rule() string {
	return "seq: every sequence of length 4 (quick) / 5 (thorough) over {Push(nil), Push({a,b}), Push({c:nil,b}), Pop (only while a pushed scope exists), Set a int, Set a nil, Set b string, Set c slice, Set b map, Copy-and-continue-on-copy, Copy-and-continue-on-original} x 6 root configurations (nil root, map root, map root that is also the root data, struct root data + root map, pointer-to-struct root data, nil pointer root data); after every operation every live stack is observed (Lookup and EnvMap for every name of the universe; once per distinct prefix also Resolve of probe paths, GetString/GetInt/GetSlice/GetMap and ForEach) and compared with a reference list-of-scopes model. " +
		"path: every chain of <=2 (quick) / <=3 (thorough) holders from {map[string]any, []any, [2]any, struct field, pointer, *struct field, []struct, []*struct, nested struct value} around each of the terminal values (scalars, typed maps/slices/arrays, nil maps/slices/pointers, structs with json tags/omitempty/untagged/unexported/embedded fields, pointers to pointers) bound in the root map, and the chains of length <=2 again in 5 more binding modes (shadowing pushed scope, struct root data by tag, by field name, pointer root data, copy; first three steps); every path of valid steps and every invalid step (out of range, negative, non-numeric, huge index, missing key, unexported/missing field, step on nil pointer/scalar/nil) in dotted, bracketed, quoted-bracket, mixed and padded-bracket (a[ 'k' ][ 0 ]) spelling, expectation known from the construction of the value. " +
		"rseq/rpath: seeded random sequences (<=60 ops, <=4 live stacks, explicit observers with random paths) and random nested values. reuse: random sequences in which the caller pushes, re-fills and re-pushes its own map objects. " +
		"non-trivial = a sequence with at least one executed mutator or a value with at least one container step; distinct by the whole case"
}

// ---------------------------------------------------------------- planning

const c17Alpha = 11

var c17ModeNames = []string{"root-map", "shadowing-scope", "struct-root-by-tag", "struct-root-by-field-name", "pointer-root", "copy"}
var c17RootNames = []string{"nil-root", "map-root", "map-root-is-rootdata", "struct-rootdata+map", "pointer-rootdata", "nil-pointer-rootdata+map"}

func (p *c17) seqLen(ctx core.Ctx) int { return ctx.Pick(4, 5) }

func c17Pow(b, e int) int {
	n := 1
	for i := 0; i < e; i++ {
		n *= b
	}
	return n
}

func (p *c17) chains(ctx core.Ctx) [][]int {
	max := ctx.Pick(2, 3)
	out := [][]int{{}}
	prev := [][]int{{}}
	for l := 1; l <= max; l++ {
		var next [][]int
		for _, c := range prev {
			for h := range c17Holders {
				nc := append(append([]int{}, c...), h)
				next = append(next, nc)
			}
		}
		out = append(out, next...)
		prev = next
	}
	return out
}

type c17Plan struct{ seqEx, pathEx0, pathExM, seqRand, pathRand, reuse int }

func c17ChainCount(max int) int {
	n, pw := 1, 1
	for l := 1; l <= max; l++ {
		pw *= len(c17Holders)
		n += pw
	}
	return n
}

func (p *c17) plan(ctx core.Ctx) c17Plan {
	return c17Plan{
		seqEx: len(c17RootNames) * c17Pow(c17Alpha, p.seqLen(ctx)),
		// binding mode 0 walks the complete path space of every chain; the other five modes only
		// concern the first segment and walk three steps of the chains of length <= 2
		pathEx0:  c17ChainCount(ctx.Pick(2, 3)) * len(c17Terminals),
		pathExM:  c17ChainCount(2) * len(c17Terminals) * (len(c17ModeNames) - 1),
		seqRand:  ctx.Pick(20000, 120000),
		pathRand: ctx.Pick(3000, 15000),
		reuse:    ctx.Pick(1500, 8000),
	}
}

func (p *c17) Plan(ctx core.Ctx) int {
	pl := p.plan(ctx)
	return c17NCacheKey + c17NEmbed() + pl.seqEx + pl.pathEx0 + pl.pathExM + pl.seqRand + pl.pathRand + pl.reuse
}

func (p *c17) Decode(raw json.RawMessage) (any, error) { return core.JSONDecode[c17Case](raw) }

var c17ChainCache = map[string][][]int{}

func (p *c17) Gen(ctx core.Ctx, i int) any {
	pl := p.plan(ctx)
	if i < c17NCacheKey {
		// the first case of every worker process (cases are dealt round-robin to 16 workers): the process-wide cache
		// of parsed paths is still empty, which is the only time two path texts can come to share an entry
		return c17Case{Part: "cachekey", Mode: i}
	}
	i -= c17NCacheKey
	if i < c17NEmbed() {
		return c17GenEmbed(i)
	}
	i -= c17NEmbed()
	if i < pl.seqEx {
		return p.genSeqEx(ctx, i)
	}
	i -= pl.seqEx
	if i < pl.pathEx0 {
		return p.genPathEx(ctx, i, 0)
	}
	i -= pl.pathEx0
	if i < pl.pathExM {
		return p.genPathEx(ctx, i/(len(c17ModeNames)-1), 1+i%(len(c17ModeNames)-1))
	}
	i -= pl.pathExM
	if i < pl.seqRand {
		return p.genSeqRand(ctx, i)
	}
	i -= pl.seqRand
	if i < pl.pathRand {
		return p.genPathRand(ctx, i)
	}
	return p.genReuse(ctx, i-pl.pathRand)
}

func (p *c17) genSeqEx(ctx core.Ctx, i int) any {
	c := c17Case{Part: "seq", Full: true}
	c.Root = i % len(c17RootNames)
	i /= len(c17RootNames)
	cur, nst := 0, 1
	for k := 0; k < p.seqLen(ctx); k++ {
		d := i % c17Alpha
		i /= c17Alpha
		// every prefix is shared by all sequences that extend it: its complete observation
		// is made once, in the extension whose remaining letters are all 0
		op := c17Op{St: cur, Light: i != 0}
		switch d {
		case 0:
			op.Op = "pushnil"
		case 1:
			op.Op, op.Names, op.Vals = "pushmap", []string{"a", "b"}, []int{0, 4}
		case 2:
			op.Op, op.Names, op.Vals = "pushmap", []string{"c", "b"}, []int{2, 1}
		case 3:
			op.Op = "pop"
		case 4:
			op.Op, op.Name, op.Val = "set", "a", 0
		case 5:
			op.Op, op.Name, op.Val = "set", "a", 2
		case 6:
			op.Op, op.Name, op.Val = "set", "b", 1
		case 7:
			op.Op, op.Name, op.Val = "set", "c", 3
		case 8:
			op.Op, op.Name, op.Val = "set", "b", 4
		case 9:
			op.Op = "copy"
			c.Ops = append(c.Ops, op)
			cur = nst
			nst++
			continue
		case 10:
			op.Op = "copy"
			nst++
		}
		c.Ops = append(c.Ops, op)
	}
	return c
}

func (p *c17) genPathEx(ctx core.Ctx, i int, mode int) any {
	key := ctx.Tier
	chains, ok := c17ChainCache[key]
	if !ok {
		chains = p.chains(ctx)
		c17ChainCache[key] = chains
	}
	term := c17Terminals[i%len(c17Terminals)]
	i /= len(c17Terminals)
	chain := chains[i%len(chains)]
	tree := term
	for k := len(chain) - 1; k >= 0; k-- {
		tree = c17Hold(c17Holders[chain[k]], tree, k+int(ctx.Seed%3))
	}
	// the binding mode only concerns the first segment: the complete path space is
	// walked in mode 0, the first three steps in the other modes
	max := 8
	if mode != 0 {
		max = 3
	}
	return c17Case{Part: "path", Tree: &tree, Mode: mode, Max: max}
}

var c17Names = []string{"a", "b", "c"}
var c17StepVocab = []string{"k", "l", "n", "0", "1", "2", "3", "-1", "name", "Name", "kid", "Kid", "list", "zz", "x", "title", "Title", "tags", "hidden", "opt"}

func c17RandSteps(r *core.RNG) []string {
	n := r.Intn(4)
	var s []string
	for i := 0; i < n; i++ {
		s = append(s, core.Pick(r, c17StepVocab))
	}
	return s
}

func (p *c17) genSeqRand(ctx core.Ctx, i int) any {
	r := core.NewRNG(ctx.Seed, 0x17, uint64(i))
	c := c17Case{Part: "seq", Root: r.Intn(len(c17RootNames))}
	n := 8 + r.Intn(53)
	depth := []int{1}
	names := append([]string{}, c17Names...)
	if c.Root >= 3 {
		names = append(names, "A", "D", "sub", "zz")
	} else {
		names = append(names, "zz")
	}
	for k := 0; k < n; k++ {
		st := r.Intn(len(depth))
		op := c17Op{St: st}
		x := r.Intn(100)
		switch {
		case x < 12:
			op.Op = "pushnil"
			depth[st]++
		case x < 22:
			op.Op = "pushmap"
			for _, nm := range names[:3] {
				if r.Chance(1, 2) {
					op.Names = append(op.Names, nm)
					op.Vals = append(op.Vals, r.Intn(c17NumVals))
				}
			}
			depth[st]++
		case x < 36:
			if depth[st] <= 1 {
				op.Op, op.Name, op.Val = "set", core.Pick(r, names), r.Intn(c17NumVals)
			} else {
				op.Op = "pop"
				depth[st]--
			}
		case x < 58:
			op.Op, op.Name, op.Val = "set", core.Pick(r, names), r.Intn(c17NumVals)
		case x < 63:
			if len(depth) < 4 {
				op.Op = "copy"
				depth = append(depth, 1)
			} else {
				op.Op = "envmap"
			}
		default:
			op.Op = core.Pick(r, []string{"lookup", "resolve", "resolve", "resolve", "envmap", "getstr", "getint", "getslice", "getmap", "foreach"})
			op.Name = core.Pick(r, names)
			if op.Op != "lookup" {
				op.Steps = c17RandSteps(r)
			}
			op.Sp = r.Intn(4)
		}
		c.Ops = append(c.Ops, op)
	}
	return c
}

func c17RandTree(r *core.RNG, depth int) c17Node {
	if depth <= 0 || r.Chance(1, 5) {
		return c17Terminals[r.Intn(len(c17Terminals))]
	}
	keys := []string{"k", "m", "n", "name", "x1", "Key"}
	switch r.Intn(10) {
	case 0, 1:
		n := c17Node{K: "map"}
		for _, j := range r.Perm(len(keys))[:1+r.Intn(3)] {
			n.Keys = append(n.Keys, keys[j])
			n.Kids = append(n.Kids, c17RandTree(r, depth-1))
		}
		return n
	case 2, 3:
		n := c17Node{K: "slice"}
		for j := r.Intn(4); j > 0; j-- {
			n.Kids = append(n.Kids, c17RandTree(r, depth-1))
		}
		return n
	case 4:
		return c17Node{K: "arr2", Kids: []c17Node{c17RandTree(r, depth-1), c17RandTree(r, depth-1)}}
	case 5, 6:
		n := c17Node{K: "struct"}
		for _, f := range []string{"Name", "Plain", "Opt"} {
			if r.Chance(1, 2) {
				n.Keys = append(n.Keys, f)
				n.Kids = append(n.Kids, c17RandTree(r, depth-1))
			}
		}
		if r.Chance(1, 3) {
			n.Keys = append(n.Keys, "Kid")
			n.Kids = append(n.Kids, c17Struct([]string{"Name"}, c17RandTree(r, depth-1)))
		}
		if r.Chance(1, 3) {
			n.Keys = append(n.Keys, "List")
			n.Kids = append(n.Kids, c17List(c17RandTree(r, depth-1)))
		}
		if r.Chance(1, 3) {
			n.Keys = append(n.Keys, "Arr")
			n.Kids = append(n.Kids, c17Node{K: "arr2", Kids: []c17Node{c17RandTree(r, depth-1)}})
		}
		if r.Chance(1, 3) {
			n.Keys = append(n.Keys, "Val")
			n.Kids = append(n.Kids, c17Node{K: "structT", I: 3, Keys: []string{"X"}, Kids: []c17Node{c17RandTree(r, depth-1)}})
		}
		return n
	case 7:
		return c17Node{K: "ptr", Kids: []c17Node{c17RandTree(r, depth-1)}}
	case 8:
		return c17Hold(core.Pick(r, []string{"structs", "pstructs"}), c17RandTree(r, depth-1), r.Intn(9))
	default:
		n := c17Node{K: "mapis"}
		for j := 1 + r.Intn(2); j > 0; j-- {
			n.Keys = append(n.Keys, fmt.Sprint(j))
			n.Kids = append(n.Kids, c17RandTree(r, depth-1))
		}
		return n
	}
}

func (p *c17) genPathRand(ctx core.Ctx, i int) any {
	r := core.NewRNG(ctx.Seed, 0x71, uint64(i))
	t := c17RandTree(r, 2+r.Intn(3))
	return c17Case{Part: "path", Tree: &t, Mode: r.Intn(len(c17ModeNames)), Max: 6}
}

func (p *c17) genReuse(ctx core.Ctx, i int) any {
	r := core.NewRNG(ctx.Seed, 0x5e, uint64(i))
	c := c17Case{Part: "reuse", Root: r.Intn(2), Full: false}
	n := 6 + r.Intn(30)
	depth := []int{1}
	// where each caller map currently is: -1 off-stack, else stack index; onDepth = depth at which it sits
	type loc struct{ st, d int }
	at := []loc{{-1, 0}, {-1, 0}}
	for k := 0; k < n; k++ {
		st := r.Intn(len(depth))
		op := c17Op{St: st}
		x := r.Intn(100)
		switch {
		case x < 25:
			j := r.Intn(2)
			if at[j].st >= 0 {
				op.Op, op.Name, op.Val = "set", core.Pick(r, c17Names), r.Intn(5)
				break
			}
			op.Op, op.J = "pushcaller", j
			for _, nm := range c17Names {
				if r.Chance(2, 3) {
					op.Names = append(op.Names, nm)
					op.Vals = append(op.Vals, r.Intn(5))
				}
			}
			depth[st]++
			at[j] = loc{st, depth[st]}
		case x < 37:
			op.Op = "pushnil"
			depth[st]++
		case x < 62:
			if depth[st] <= 1 {
				op.Op = "lookup"
				op.Name = "a"
				break
			}
			op.Op = "pop"
			for j := range at {
				if at[j].st == st && at[j].d == depth[st] {
					at[j] = loc{-1, 0}
				}
			}
			depth[st]--
		case x < 80:
			op.Op, op.Name, op.Val = "set", core.Pick(r, c17Names), r.Intn(5)
		case x < 90:
			j := r.Intn(2)
			if at[j].st >= 0 {
				op.Op, op.Name = "lookup", "b"
				break
			}
			op.Op, op.J, op.Name, op.Val = "callerwrite", j, core.Pick(r, c17Names), r.Intn(5)
		case x < 94:
			if len(depth) < 3 {
				op.Op = "copy"
				depth = append(depth, 1)
			} else {
				op.Op = "envmap"
			}
		default:
			op.Op, op.Name = "lookup", core.Pick(r, c17Names)
		}
		c.Ops = append(c.Ops, op)
	}
	return c
}

// ---------------------------------------------------------------- value catalogue of the sequence parts

const c17NumVals = 12

func c17Val(kind, stamp int) c17Node {
	switch kind {
	case 0:
		return c17Int(1000 + stamp)
	case 1:
		return c17Str(fmt.Sprintf("s%d", stamp))
	case 2:
		return c17N("nil")
	case 3:
		return c17List(c17Int(stamp), c17Str(fmt.Sprintf("x%d", stamp)), c17Map([]string{"k"}, c17Int(stamp+1)))
	case 4:
		return c17Map([]string{"k", "l", "n"}, c17Str(fmt.Sprintf("v%d", stamp)), c17List(c17Int(stamp), c17Int(stamp+1)), c17N("nil"))
	case 5:
		return c17Node{K: "strs", Kids: []c17Node{c17Str(fmt.Sprintf("p%d", stamp)), c17Str("q")}}
	case 6:
		return c17Struct([]string{"Name", "Kid", "List"}, c17Int(stamp), c17Struct([]string{"Name"}, c17Str(fmt.Sprintf("kid%d", stamp))), c17List(c17Int(stamp), c17Str("l1")))
	case 7:
		return c17Node{K: "mapss", Keys: []string{"k"}, Kids: []c17Node{c17Str(fmt.Sprintf("ss%d", stamp))}}
	case 8:
		return c17Node{K: "bool", B: true}
	case 9:
		return c17Node{K: "ints", Kids: []c17Node{c17Int(stamp), c17Int(2)}}
	case 10:
		return c17Node{K: "pitem", S: fmt.Sprintf("it%d", stamp), I: int64(stamp)}
	default:
		return c17Node{K: "arr2", Kids: []c17Node{c17Int(stamp), c17Str("a1")}}
	}
}

// ---------------------------------------------------------------- pool hook

var c17PoolGets, c17PoolBadGet, c17PoolBadPut int

const c17SigCap = 40

var c17SigCount = map[string]int{}

func c17Hook(point, a, b int) {
	switch point {
	case vuego.VerifPoolGet:
		c17PoolGets++
		if a != 0 {
			c17PoolBadGet++
		}
	case vuego.VerifPoolPut:
		if a != 0 {
			c17PoolBadPut++
		}
	}
}

// ---------------------------------------------------------------- run state

type c17Stk struct {
	s *vuego.Stack
	m *c17Model
}

type c17Run struct {
	o       *core.Obs
	c       c17Case
	prefix  string
	stacks  []*c17Stk
	stamp   int
	seen    map[string]bool
	nfail   int
	abort   bool
	lastOp  string
	acted   int
	trace   []func() string
	names   []string
	cells   map[[2]string]int
	soft    bool // the failure being recorded does not invalidate the rest of the case
	callers []map[string]any
	spin    int
}

func (r *c17Run) failSig(sig, format string, args ...any) {
	r.nfail++
	if !r.soft {
		r.abort = true
	}
	if r.seen == nil {
		r.seen = map[string]bool{}
	}
	if r.seen[sig] || len(r.seen) >= 6 {
		return
	}
	r.seen[sig] = true
	// one worker process records at most c17SigCap witnesses per signature; further ones are only counted
	if c17SigCount[sig] >= c17SigCap {
		r.o.Count("violations_not_recorded_again(same signature, same worker)", 1)
		return
	}
	c17SigCount[sig]++
	var trs []string
	for _, f := range r.trace {
		trs = append(trs, f())
	}
	tr := strings.Join(trs, "; ")
	if len(tr) > 1500 {
		tr = "…" + tr[len(tr)-1500:]
	}
	if r.c.Part == "path" {
		r.o.Fail(r.c, sig, "%s\n%s", fmt.Sprintf(format, args...), tr)
		return
	}
	r.o.Fail(r.c, sig, "%s\nroot: %s  operations so far: %s", fmt.Sprintf(format, args...), c17RootNames[r.c.Root%len(c17RootNames)], tr)
}

// fail builds the classifier signature of a stack-level failure.
//   - caller-map part: every divergence is one consequence of the same aliasing -> one signature
//   - EnvMap / Resolve / getter disagreements are stateless -> no origin, case continues
//   - Lookup divergence = the scope structure is wrong: origin (the mutator that preceded the first
//     divergence, or "independence" when another stack was operated on) + defect group
func (r *c17Run) fail(si int, api, defect, ncls string, format string, args ...any) {
	var sig string
	r.soft = false
	switch {
	case r.prefix != "":
		sig = r.prefix + "stack-bindings-corrupted"
	case api == "EnvMap":
		sig = api + "/" + defect + "/" + ncls
		r.soft = true
	case api == "Lookup":
		origin := "after-" + r.lastOp
		if si != r.acted && r.lastOp != "new" {
			origin = "independence"
		}
		switch defect {
		case "binding-missing", "wrong-value":
			defect = "binding-lost-or-wrong"
		}
		sig = origin + ":Lookup/" + defect
		if r.stacks[si].m.rootKind != "" && strings.HasPrefix(ncls, "unbound-name") {
			sig += "/" + r.stacks[si].m.rootKind
		}
	case api == "Resolve":
		if !strings.Contains(ncls, "/") {
			ncls = "stack/" + ncls
		}
		sig = "resolve/" + defect + "/" + ncls
		r.soft = true
	default:
		sig = api + "/" + defect
		r.soft = true
	}
	r.failSig(sig, "stack #%d: "+format, append([]any{si}, args...)...)
	r.soft = false
}

func (r *c17Run) call(api string, f func()) (panicked bool) {
	defer func() {
		if x := recover(); x != nil {
			st := string(debug.Stack())
			r.failSig("panic@"+core.TopRepoFrame(st), "panic in %s: %v\n%s", api, x, clip(st, 1800))
			panicked = true
		}
	}()
	r.o.Evals++
	f()
	return false
}

// cell2 counts a coverage cell named a+b without building the string each time.
func (r *c17Run) cell2(a, b string) {
	if r.cells == nil {
		r.cells = map[[2]string]int{}
	}
	r.cells[[2]string{a, b}]++
}

func (r *c17Run) flushCells() {
	for k, n := range r.cells {
		if r.o.Cells == nil {
			r.o.Cells = map[string]int{}
		}
		r.o.Cells[k[0]+k[1]] += n
	}
	r.cells = nil
}

func (r *c17Run) build(kind int) *c17Built {
	r.stamp++
	return c17Build(c17Val(kind, r.stamp))
}

func c17FieldsOf(rb *c17Built) map[string]c17Field {
	f := map[string]c17Field{}
	add := func(name, class string, canonical, sv bool) {
		f[name] = c17Field{bind: c17Bind{b: rb.steps[name]}, class: class, canonical: canonical, structValued: sv}
	}
	add("a", "struct-tag-name", true, false)
	add("b", "struct-tag-name", true, false)
	add("c", "struct-tag-name", true, false)
	add("A", "struct-go-name", false, false)
	add("B", "struct-go-name", false, false)
	add("Cee", "struct-go-name", false, false)
	add("D", "struct-untagged-name", true, false)
	add("sub", "struct-tag-name", true, true)
	add("Sub", "struct-go-name", false, true)
	return f
}

func (r *c17Run) newRoot(kind int) {
	bind := func(k int) c17Bind { return c17Bind{b: r.build(k)} }
	st := &c17Stk{}
	m := &c17Model{}
	mk := func(names []string, kinds []int) (map[string]any, map[string]c17Bind) {
		real, mod := map[string]any{}, map[string]c17Bind{}
		for i, n := range names {
			b := bind(kinds[i])
			real[n] = b.b.val
			mod[n] = b
		}
		return real, mod
	}
	r.names = []string{"a", "b", "c", "zz"}
	structNames := []string{"A", "B", "Cee", "D", "sub", "Sub", "hid"}
	switch kind % len(c17RootNames) {
	case 0:
		st.s = vuego.NewStack(nil)
		m.scopes = []map[string]c17Bind{{}}
	case 1:
		real, mod := mk([]string{"a", "c"}, []int{0, 3})
		st.s = vuego.NewStack(real)
		m.scopes = []map[string]c17Bind{mod}
	case 2:
		real, mod := mk([]string{"a", "b"}, []int{4, 1})
		st.s = vuego.NewStackWithData(real, real)
		m.scopes = []map[string]c17Bind{mod}
		m.rootKind = "map-is-rootdata"
	case 3:
		real, mod := mk([]string{"b"}, []int{1})
		sub, subB := c17BuildRoot(c17Leaf("subA"), nil, nil, c17Leaf(77), nil, nil)
		data, db := c17BuildRoot(r.build(0), r.build(1), r.build(3), r.build(4), &sub, subB)
		st.s = vuego.NewStackWithData(real, data)
		m.scopes = []map[string]c17Bind{mod}
		m.fields = c17FieldsOf(db)
		r.names = append(r.names, structNames...)
	case 4:
		data, db := c17BuildRoot(r.build(4), nil, r.build(1), r.build(0), nil, nil)
		st.s = vuego.NewStackWithData(nil, &data)
		m.scopes = []map[string]c17Bind{{}}
		m.fields = c17FieldsOf(db)
		r.names = append(r.names, structNames...)
	case 5:
		real, mod := mk([]string{"a"}, []int{0})
		st.s = vuego.NewStackWithData(real, (*c17Root)(nil))
		m.scopes = []map[string]c17Bind{mod}
		r.names = append(r.names, structNames...)
	}
	st.m = m
	r.stacks = append(r.stacks, st)
}

// ---------------------------------------------------------------- observation

func (r *c17Run) lookupDefect(st *c17Stk, name string, got any, ok bool) (string, c17Bind, bool, string) {
	mb, mok, ncls := st.m.lookup(name)
	switch {
	case !mok:
		if ok {
			return "spurious-binding", mb, mok, ncls
		}
		if got != nil {
			return "value-returned-with-not-found", mb, mok, ncls
		}
	case mb.fuzzy:
		if !ok {
			return "binding-missing", mb, mok, ncls
		}
	case mb.b.val == nil:
		if got != nil {
			for _, ov := range st.m.outerValues(name) {
				if c17Equal(got, ov) {
					return "outer-binding-returned", mb, mok, ncls
				}
			}
			return "wrong-value", mb, mok, ncls
		}
	default:
		if !ok {
			return "binding-missing", mb, mok, ncls
		}
		if !c17Equal(got, mb.b.val) {
			for _, ov := range st.m.outerValues(name) {
				if c17Equal(got, ov) {
					return "outer-binding-returned", mb, mok, ncls
				}
			}
			return "wrong-value", mb, mok, ncls
		}
	}
	return "", mb, mok, ncls
}

func c17DescribeBind(b c17Bind, ok bool) string {
	if !ok {
		return "(unbound)"
	}
	if b.fuzzy {
		return "(bound, representation not judged)"
	}
	return c17Show(b.b.val)
}

func (r *c17Run) observe(si int, full bool) {
	st := r.stacks[si]
	var env map[string]any
	if r.call("EnvMap", func() { env = st.s.EnvMap() }) {
		return
	}
	for _, name := range r.names {
		var gv any
		var gok bool
		if r.call("Lookup", func() { gv, gok = st.s.Lookup(name) }) {
			return
		}
		defect, mb, mok, ncls := r.lookupDefect(st, name, gv, gok)
		r.cell2("lookup/", ncls)
		if defect != "" {
			r.fail(si, "Lookup", defect, ncls, "Lookup(%q) = (%s, %v); the reference scope list says %s", name, c17Show(gv), gok, c17DescribeBind(mb, mok))
			return // the stack has diverged from the model: everything after this is a consequence
		}
		// merged environment agrees with lookup
		ev, eok := env[name]
		switch {
		case eok != gok:
			d := "name-missing"
			if eok {
				d = "name-spurious"
			}
			r.fail(si, "EnvMap", d, ncls, "EnvMap() has %q: %v (value %s) but Lookup(%q) = (%s, %v)", name, eok, c17Show(ev), name, c17Show(gv), gok)
			continue
		case eok && mok && !mb.fuzzy && st.m.isStructValued(name):
			r.cell2("not-judged/", "envmap-representation-of-struct-valued-field")
		case eok && mok && !mb.fuzzy:
			if !c17Equal(ev, mb.b.val) {
				d := "wrong-value"
				for _, ov := range st.m.outerValues(name) {
					if c17Equal(ev, ov) {
						d = "outer-binding-returned"
					}
				}
				r.fail(si, "EnvMap", d, ncls, "EnvMap()[%q] = %s but Lookup(%q) = %s", name, c17Show(ev), name, c17Show(gv))
				continue
			}
		}
		if !full {
			continue
		}
		if !r.checkExpr(si, "Resolve", name, nil, 0) {
			continue
		}
		var pp [][]string
		if mok && !mb.fuzzy && mb.b.val != nil {
			pp = mb.b.probePaths()
		}
		okAll := true
		for k := 0; k < 3 && k < len(pp); k++ { // three probe paths per observation, rotating through all of them
			r.spin++
			if !r.checkExpr(si, "Resolve", name, pp[(r.spin/4)%len(pp)], r.spin%4) {
				okAll = false
				break
			}
		}
		if !okAll {
			continue
		}
		r.spin++
		for _, api := range c17Getters {
			r.checkExpr(si, api, name, nil, 0)
		}
		if len(pp) > 0 {
			r.checkExpr(si, c17Getters[r.spin%len(c17Getters)], name, pp[(r.spin/5)%len(pp)], r.spin%4)
		}
	}
	// keys of the merged environment outside the universe must be names lookup knows too
	for k, ev := range env {
		known := false
		for _, n := range r.names {
			if n == k {
				known = true
				break
			}
		}
		if known {
			continue
		}
		mb, mok, ncls := st.m.lookup(k)
		if !mok {
			r.fail(si, "EnvMap", "name-spurious", ncls, "EnvMap() lists %q = %s, which no scope binds and the root data does not offer", k, c17Show(ev))
		} else if !mb.fuzzy && !st.m.isStructValued(k) && !c17Equal(ev, mb.b.val) {
			r.fail(si, "EnvMap", "wrong-value", ncls, "EnvMap()[%q] = %s, reference %s", k, c17Show(ev), c17Show(mb.b.val))
		}
	}
}

var c17ErrStop = errors.New("c17-stop")
var c17Getters = []string{"GetString", "GetInt", "GetSlice", "GetMap", "ForEach"}

// checkExpr runs one observer API on name+steps and compares with the model. Returns false on failure.
func (r *c17Run) checkExpr(si int, api, name string, steps []string, sp int) bool {
	st := r.stacks[si]
	expr := c17Spell(name, steps, sp)
	exp := st.m.walk(name, steps)
	ncls := exp.parent + "/" + exp.stepCls
	if len(steps) == 0 {
		ncls = exp.stepCls
	}
	var want any
	present := !exp.absent && exp.fuzzy == "" && exp.b != nil && exp.b.val != nil
	if present {
		want = exp.b.val
	}
	judged := exp.fuzzy == ""
	switch api {
	case "Resolve":
		var gv any
		var gok bool
		if r.call("Resolve", func() { gv, gok = st.s.Resolve(expr) }) {
			return false
		}
		d, note := c17Judge(gv, gok, exp)
		if note != "" {
			r.cell2("not-judged/", note)
		}
		if d != "" {
			r.fail(si, "Resolve", d, ncls, "Resolve(%q) = (%s, %v); expected %s", expr, c17Show(gv), gok, c17DescribeExp(exp))
			return false
		}
		r.cell2("resolve/", c17Spellings[sp%len(c17Spellings)])
		if len(steps) > 0 {
			r.cell2("seq-path/"+exp.parent+"/", exp.stepCls)
		}
	case "GetString":
		var gs string
		var gok bool
		if r.call(api, func() { gs, gok = st.s.GetString(expr) }) {
			return false
		}
		if !judged {
			return true
		}
		if !present {
			if gok || gs != "" {
				r.fail(si, api, "value-for-absent-or-nil", ncls, "GetString(%q) = (%q, %v) although the path is absent or nil (%s)", expr, gs, gok, c17DescribeExp(exp))
				return false
			}
		} else if s, isStr := want.(string); isStr {
			if !gok || gs != s {
				r.fail(si, api, "wrong-result", ncls, "GetString(%q) = (%q, %v), the element is the string %q", expr, gs, gok, s)
				return false
			}
			r.cell2("getter/", "GetString/string")
		} else {
			r.cell2("not-judged/", "GetString-conversion")
		}
	case "GetInt":
		var gi int
		var gok bool
		if r.call(api, func() { gi, gok = st.s.GetInt(expr) }) {
			return false
		}
		if !judged {
			return true
		}
		if !present {
			if gok || gi != 0 {
				r.fail(si, api, "value-for-absent-or-nil", ncls, "GetInt(%q) = (%d, %v) although the path is absent or nil (%s)", expr, gi, gok, c17DescribeExp(exp))
				return false
			}
		} else if n, isInt := want.(int); isInt {
			if !gok || gi != n {
				r.fail(si, api, "wrong-result", ncls, "GetInt(%q) = (%d, %v), the element is the int %d", expr, gi, gok, n)
				return false
			}
			r.cell2("getter/", "GetInt/int")
		} else {
			r.cell2("not-judged/", "GetInt-conversion")
		}
	case "GetSlice":
		var gl []any
		var gok bool
		if r.call(api, func() { gl, gok = st.s.GetSlice(expr) }) {
			return false
		}
		if !judged {
			return true
		}
		switch {
		case !present:
			if gok || gl != nil {
				r.fail(si, api, "value-for-absent-or-nil", ncls, "GetSlice(%q) = (%s, %v) although the path is absent or nil (%s)", expr, c17Show(gl), gok, c17DescribeExp(exp))
				return false
			}
		case exp.b.elems != nil || c17IsSeqKind(exp.b.kind):
			okEl := gok && len(gl) == len(exp.b.elems)
			if okEl {
				for i, e := range exp.b.elems {
					if !c17Equal(gl[i], e.val) {
						okEl = false
					}
				}
			}
			if !okEl {
				r.fail(si, api, "wrong-result", ncls, "GetSlice(%q) = (%s, %v), the element is %s", expr, c17Show(gl), gok, c17Show(want))
				return false
			}
			r.cell2("getter/GetSlice/", exp.b.kind)
		case strings.HasPrefix(exp.b.kind, "*"):
			r.cell2("not-judged/", "GetSlice-through-pointer")
		default:
			if gok || gl != nil {
				r.fail(si, api, "slice-from-non-slice", ncls, "GetSlice(%q) = (%s, %v), the element is %s", expr, c17Show(gl), gok, c17Show(want))
				return false
			}
		}
	case "GetMap":
		var gm map[string]any
		var gok bool
		if r.call(api, func() { gm, gok = st.s.GetMap(expr) }) {
			return false
		}
		if !judged {
			return true
		}
		switch {
		case !present:
			if gok || gm != nil {
				r.fail(si, api, "value-for-absent-or-nil", ncls, "GetMap(%q) = (%s, %v) although the path is absent or nil (%s)", expr, c17Show(gm), gok, c17DescribeExp(exp))
				return false
			}
		default:
			switch w := want.(type) {
			case map[string]any:
				if !gok || !reflect.DeepEqual(gm, w) {
					r.fail(si, api, "wrong-result", ncls, "GetMap(%q) = (%s, %v), the element is %s", expr, c17Show(gm), gok, c17Show(want))
					return false
				}
				r.cell2("getter/", "GetMap/map[string]any")
			case map[string]string:
				conv := make(map[string]any, len(w))
				for k, v := range w {
					conv[k] = v
				}
				if !gok || !reflect.DeepEqual(gm, conv) {
					r.fail(si, api, "wrong-result", ncls, "GetMap(%q) = (%s, %v), the element is %s", expr, c17Show(gm), gok, c17Show(want))
					return false
				}
				r.cell2("getter/", "GetMap/map[string]string")
			default:
				r.cell2("not-judged/", "GetMap-other-type")
			}
		}
	case "ForEach":
		var idx []int
		var vals []any
		var err error
		if r.call(api, func() {
			err = st.s.ForEach(expr, func(i int, v any) error { idx = append(idx, i); vals = append(vals, v); return nil })
		}) {
			return false
		}
		if !judged {
			return true
		}
		if err != nil {
			r.fail(si, api, "error-without-callback-error", ncls, "ForEach(%q) returned %v although the callback returned nil", expr, err)
			return false
		}
		switch {
		case exp.absent:
			if len(idx) != 0 {
				r.fail(si, api, "iterates-absent", ncls, "ForEach(%q) made %d calls although the path is absent", expr, len(idx))
				return false
			}
		case !present:
		case exp.b.elems != nil || c17IsSeqKind(exp.b.kind):
			good := len(idx) == len(exp.b.elems)
			if good {
				for i, e := range exp.b.elems {
					if idx[i] != i || !c17Equal(vals[i], e.val) {
						good = false
					}
				}
			}
			if !good {
				r.fail(si, api, "wrong-sequence", ncls, "ForEach(%q) visited indexes %v values %s; the element is %s", expr, idx, c17Show(vals), c17Show(want))
				return false
			}
			r.cell2("foreach/", exp.b.kind)
			if len(exp.b.elems) >= 2 {
				calls := 0
				var e2 error
				if r.call(api, func() {
					e2 = st.s.ForEach(expr, func(i int, v any) error {
						calls++
						if i == 1 {
							return c17ErrStop
						}
						return nil
					})
				}) {
					return false
				}
				if e2 != c17ErrStop || calls != 2 {
					r.fail(si, api, "callback-error-not-passed-through", ncls, "ForEach(%q) with a callback failing at index 1: %d calls, returned %v", expr, calls, e2)
					return false
				}
				r.cell2("foreach/", "error-pass-through")
			}
		default:
			if m, isMap := want.(map[string]any); isMap {
				good := len(vals) == len(m)
				used := make([]bool, len(vals))
				for _, mv := range m {
					hit := false
					for i, v := range vals {
						if !used[i] && c17Equal(v, mv) {
							used[i], hit = true, true
							break
						}
					}
					if !hit {
						good = false
					}
				}
				for i, x := range idx {
					if x != i {
						good = false
					}
				}
				if !good {
					r.fail(si, api, "wrong-sequence", ncls, "ForEach(%q) visited indexes %v values %s; the element is %s", expr, idx, c17Show(vals), c17Show(want))
					return false
				}
				r.cell2("foreach/", "map[string]any")
			} else {
				r.cell2("not-judged/", "ForEach-non-collection")
			}
		}
	}
	return true
}

func c17IsSeqKind(k string) bool {
	return k == "array" || strings.HasPrefix(k, "[]")
}

func c17DescribeExp(e c17Exp) string {
	switch {
	case e.fuzzy != "":
		return "(not judged: " + e.fuzzy + ")"
	case e.absent:
		return fmt.Sprintf("absent (%s at %s)", e.stepCls, e.parent)
	default:
		return fmt.Sprintf("%s (reached by %s of %s)", c17Show(e.b.val), e.stepCls, e.parent)
	}
}

// ---------------------------------------------------------------- sequence execution

// observeAll: the stacks that were not operated on first (a divergence there is an
// independence failure), then the one that was; stops at the first divergence.
func (r *c17Run) observeAll(light bool) {
	for si := range r.stacks {
		if si != r.acted && !r.abort {
			r.observe(si, r.c.Full && !light)
		}
	}
	if r.acted >= 0 && r.acted < len(r.stacks) && !r.abort {
		r.observe(r.acted, !light)
	}
}

func (r *c17Run) poolCheck() {
	if c17PoolBadGet > 0 {
		c17PoolBadGet = 0
		r.failSig(r.prefix+"pool/non-empty-map-handed-out-by-Push(nil)", "Push(nil) took a map from the pool that still held bindings")
	}
	if c17PoolBadPut > 0 {
		c17PoolBadPut = 0
		r.failSig(r.prefix+"pool/map-returned-to-pool-uncleared", "Pop returned a map to the pool that still held bindings")
	}
}

func (r *c17Run) apply(op c17Op) {
	if op.St < 0 || op.St >= len(r.stacks) {
		r.o.Cell("op/skipped-no-such-stack")
		return
	}
	st := r.stacks[op.St]
	mutated := false
	switch op.Op {
	case "pushnil":
		r.trace = append(r.trace, func() string { return fmt.Sprintf("#%d.Push(nil)", op.St) })
		if r.call("Push", func() { st.s.Push(nil) }) {
			return
		}
		st.m.push(nil)
		r.lastOp, mutated = "push", true
	case "pushmap", "pushcaller":
		real := map[string]any{}
		if op.Op == "pushcaller" {
			if op.J < 0 || op.J >= len(r.callers) {
				return
			}
			real = r.callers[op.J]
			for k := range real { // the caller re-initialises its own map before using it again
				delete(real, k)
			}
		}
		mod := map[string]c17Bind{}
		for i, n := range op.Names {
			if i >= len(op.Vals) {
				break
			}
			b := r.build(op.Vals[i])
			real[n] = b.val
			mod[n] = c17Bind{b: b}
		}
		r.trace = append(r.trace, func() string {
			var desc []string
			for _, n := range sortedKeys(mod) {
				desc = append(desc, fmt.Sprintf("%s:%s", n, clip(fmt.Sprintf("%v", mod[n].b.val), 30)))
			}
			who := "fresh map"
			if op.Op == "pushcaller" {
				who = fmt.Sprintf("caller's map M%d re-filled", op.J)
			}
			return fmt.Sprintf("#%d.Push(%s {%s})", op.St, who, strings.Join(desc, ", "))
		})
		if r.call("Push", func() { st.s.Push(real) }) {
			return
		}
		st.m.push(mod)
		r.lastOp, mutated = "push", true
	case "pop":
		if st.m.depth() <= 1 {
			r.o.Cell("op/pop-skipped-no-pushed-scope")
			return
		}
		r.trace = append(r.trace, func() string { return fmt.Sprintf("#%d.Pop()", op.St) })
		if r.call("Pop", func() { st.s.Pop() }) {
			return
		}
		st.m.pop()
		r.lastOp, mutated = "pop", true
	case "set":
		b := r.build(op.Val)
		r.trace = append(r.trace, func() string {
			return fmt.Sprintf("#%d.Set(%q, %s)", op.St, op.Name, clip(fmt.Sprintf("%v", b.val), 40))
		})
		if r.call("Set", func() { st.s.Set(op.Name, b.val) }) {
			return
		}
		st.m.set(op.Name, c17Bind{b: b})
		r.lastOp, mutated = "set", true
	case "copy":
		nidx := len(r.stacks)
		r.trace = append(r.trace, func() string { return fmt.Sprintf("#%d = #%d.Copy()", nidx, op.St) })
		var ns *vuego.Stack
		if r.call("Copy", func() { ns = st.s.Copy() }) {
			return
		}
		if ns == nil || ns == st.s {
			r.failSig(r.prefix+"copy/not-a-new-stack", "Copy returned %v", ns)
			return
		}
		r.stacks = append(r.stacks, &c17Stk{s: ns, m: st.m.copy()})
		r.lastOp = "copy"
		r.acted = len(r.stacks) - 1
		r.o.Cell("op/copy")
		r.poolCheck()
		r.observeAll(op.Light)
		return
	case "callerwrite":
		if op.J < 0 || op.J >= len(r.callers) {
			return
		}
		b := r.build(op.Val)
		r.trace = append(r.trace, func() string {
			return fmt.Sprintf("caller writes M%d[%q]=%s (M%d is on no stack)", op.J, op.Name, clip(fmt.Sprintf("%v", b.val), 30), op.J)
		})
		r.callers[op.J][op.Name] = b.val
		r.lastOp = "caller-writes-own-map"
		r.acted = -1
		r.o.Cell("op/callerwrite")
		r.observeAll(op.Light)
		return
	case "lookup":
		r.o.Cell("op/observer-lookup")
		r.observe(op.St, false)
		return
	case "envmap":
		r.o.Cell("op/observer-envmap")
		r.observe(op.St, false)
		return
	case "resolve", "getstr", "getint", "getslice", "getmap", "foreach":
		api := map[string]string{"resolve": "Resolve", "getstr": "GetString", "getint": "GetInt", "getslice": "GetSlice", "getmap": "GetMap", "foreach": "ForEach"}[op.Op]
		r.cell2("op/observer-", op.Op)
		// an observer must not change anything either: keep origin of the last mutator
		r.checkExpr(op.St, api, op.Name, op.Steps, op.Sp&3)
		return
	default:
		return
	}
	if mutated {
		r.acted = op.St
		r.cell2("op/", op.Op)
		r.poolCheck()
		r.observeAll(op.Light)
	}
}

func (p *c17) execSeq(ctx core.Ctx, c c17Case) core.Obs {
	var o core.Obs
	r := &c17Run{o: &o, c: c}
	if c.Part == "reuse" {
		r.prefix = "callermap/"
		r.callers = []map[string]any{{}, {}}
		defer func() {
			for _, m := range r.callers {
				for k := range m {
					delete(m, k)
				}
			}
			// drop whatever this case left in the pool so that no other case inherits an aliased map
			runtime.GC()
			runtime.GC()
		}()
	}
	c17PoolGets, c17PoolBadGet, c17PoolBadPut = 0, 0, 0
	removeHook := pushHook(c17Hook)
	defer removeHook()
	r.lastOp = "new"
	r.newRoot(c.Root)
	r.o.Cell("root/" + c17RootNames[c.Root%len(c17RootNames)])
	r.observeAll(len(c.Ops) > 0 && c.Ops[0].Light)
	maxDepth, executed := 1, 0
	for _, op := range c.Ops {
		if r.abort {
			break
		}
		before := len(r.trace)
		r.apply(op)
		if len(r.trace) > before {
			executed++
		}
		for _, st := range r.stacks {
			if d := st.m.depth(); d > maxDepth {
				maxDepth = d
			}
		}
	}
	if maxDepth > 6 {
		maxDepth = 6
	}
	r.flushCells()
	o.Cell(fmt.Sprintf("%s/max-depth-%d", c.Part, maxDepth))
	o.Cell(fmt.Sprintf("%s/live-stacks-%d", c.Part, len(r.stacks)))
	o.Count("pool_gets_observed", int64(c17PoolGets))
	if executed > 0 {
		o.NT(c.Part, mustJSON(c))
	}
	if c.Part == "seq" && c.Root == 3 && len(c.Ops) > 0 && c.Ops[0].Op == "pushmap" && len(r.stacks) > 1 {
		o.Sample = map[string]any{"root": c17RootNames[c.Root], "operations": r.trace, "names_observed": r.names}
	}
	return o
}

// ---------------------------------------------------------------- path execution

func (p *c17) execPath(ctx core.Ctx, c c17Case) core.Obs {
	var o core.Obs
	if c.Tree == nil {
		return o
	}
	r := &c17Run{o: &o, c: c, lastOp: "new"}
	c17PoolGets, c17PoolBadGet, c17PoolBadPut = 0, 0, 0
	removeHook := pushHook(c17Hook)
	defer removeHook()
	tb := c17Build(*c.Tree)
	decoy := c17Leaf(777)
	other := c17Leaf("other")
	var s *vuego.Stack
	root := "v"
	mode := c.Mode % len(c17ModeNames)
	// the texts of the invalid steps are themselves variables of the stack, holding
	// keys / indexes / field names that exist in the containers: a step is a
	// literal key, never the name of a variable to look up
	lures := func(m map[string]any) map[string]any {
		for k, v := range map[string]any{"zz": "k", "x": 0, "name": 0, "y": "Name", "z": "Name", "plain": "Name", "hidden": "Name", "secret": "name", "sec": "Name", "k": "zz"} {
			if _, taken := m[k]; !taken {
				m[k] = v
			}
		}
		return m
	}
	ok := !r.call("setup", func() {
		switch mode {
		case 0:
			s = vuego.NewStack(lures(map[string]any{"v": tb.val, "w": other.val}))
		case 1, 5:
			s = vuego.NewStack(lures(map[string]any{"v": decoy.val}))
			s.Push(nil)
			s.Set("v", tb.val)
			s.Push(map[string]any{"w": other.val})
			if mode == 5 {
				s = s.Copy()
			}
		case 2, 3:
			data, _ := c17BuildRoot(tb, other, nil, nil, nil, nil)
			s = vuego.NewStackWithData(lures(map[string]any{"w": 1}), data)
			root = []string{"a", "A"}[mode-2]
		case 4:
			data, _ := c17BuildRoot(tb, other, nil, nil, nil, nil)
			s = vuego.NewStackWithData(nil, &data)
			root = "a"
		}
	})
	if !ok {
		return o
	}
	o.Cell("mode/" + c17ModeNames[mode])
	maxSteps := c.Max
	if maxSteps <= 0 {
		maxSteps = 6
	}
	budget := 6000
	containerSteps := 0
	bound := root
	trace := func() string {
		return fmt.Sprintf("value bound as %q (%s): %s", bound, c17ModeNames[mode], clip(mustJSON(c.Tree), 700))
	}

	// check one path in all spellings; returns false if any spelling disagrees with the expectation
	check := func(steps []string, exp c17Exp) bool {
		nsp := len(c17Spellings)
		if len(steps) == 0 {
			nsp = 1
		}
		defects := make([]string, nsp)
		var firstExpr, firstGot string
		bad := 0
		for sp := 0; sp < nsp; sp++ {
			expr := c17Spell(root, steps, sp)
			var gv any
			var gok bool
			if r.call("Resolve", func() { gv, gok = s.Resolve(expr) }) {
				return false
			}
			d, note := c17Judge(gv, gok, exp)
			if note != "" {
				r.cell2("not-judged/", note)
			}
			defects[sp] = d
			if d != "" {
				if bad == 0 {
					firstExpr, firstGot = expr, fmt.Sprintf("(%s, %v)", c17Show(gv), gok)
				}
				bad++
			}
		}
		budget -= nsp
		r.cell2("path/"+exp.parent+"/", exp.stepCls)
		if bad == 0 {
			return true
		}
		r.trace = []func() string{trace}
		if bad == nsp {
			same := true
			for _, d := range defects {
				if d != defects[0] {
					same = false
				}
			}
			d := defects[0]
			if !same {
				d = "mixed-defects"
			}
			r.abort = false
			r.failSig(fmt.Sprintf("resolve/%s/%s/%s", d, exp.parent, exp.stepCls), "Resolve(%q) = %s in every spelling; expected %s", firstExpr, firstGot, c17DescribeExp(exp))
		} else {
			for sp, d := range defects {
				if d != "" {
					r.abort = false
					r.failSig(fmt.Sprintf("resolve/spelling-%s/%s", c17Spellings[sp], d), "Resolve(%q) = %s but other spellings of the same path resolve as expected: %s", c17Spell(root, steps, sp), firstGot, c17DescribeExp(exp))
				}
			}
		}
		return false
	}

	var dfs func(cur *c17Built, steps []string)
	dfs = func(cur *c17Built, steps []string) {
		if budget <= 0 || len(steps) >= maxSteps || cur.val == nil {
			return
		}
		for _, sname := range cur.sortedSteps() {
			child := cur.steps[sname]
			ns := append(append([]string{}, steps...), sname)
			var exp c17Exp
			if why, fz := cur.fuzzy[sname]; fz {
				exp = c17Exp{fuzzy: why, b: child, parent: cur.kind, stepCls: "fuzzy"}
				check(ns, exp)
				continue // nothing beyond a not-judged step is judged
			}
			exp = c17Exp{b: child, parent: cur.kind, stepCls: cur.cls[sname]}
			containerSteps++
			if check(ns, exp) {
				dfs(child, ns)
			}
		}
		for _, bd := range cur.bad {
			ns := append(append([]string{}, steps...), bd.step)
			exp := c17Exp{absent: true, parent: cur.kind, stepCls: bd.cls}
			if check(ns, exp) && len(ns) < maxSteps {
				// continuing after an absent step stays absent
				check(append(append([]string{}, ns...), "k"), c17Exp{absent: true, parent: "absent", stepCls: "step-after-absent"})
			}
		}
	}
	rootCls := "scope-name"
	if mode >= 2 && mode <= 4 {
		rootCls = []string{"struct-tag-name", "struct-go-name", "struct-tag-name"}[mode-2]
	}
	if check(nil, c17Exp{b: tb, parent: "stack", stepCls: rootCls}) {
		dfs(tb, nil)
	}
	// neighbours: an unbound root name and the sibling binding
	root = "nosuch"
	check([]string{"k"}, c17Exp{absent: true, parent: "stack", stepCls: "unbound-name"})
	// malformed paths are only required not to panic
	for _, bad := range []string{"", ".", "v.", "v[", "v[]", "v..k", "[0]", "v[0", "v]", "v['k]", " v . k "} {
		r.call("Resolve", func() { s.Resolve(bad) })
		o.Cell("not-judged/malformed-path")
	}
	if budget <= 0 {
		o.Cell("path/budget-exhausted")
	}
	r.flushCells()
	if c17PoolBadGet > 0 || c17PoolBadPut > 0 {
		r.poolCheck()
	}
	if containerSteps > 0 {
		o.NT("path", mustJSON(c))
	}
	o.Count("container_steps_checked", int64(containerSteps))
	if mode == 1 && c.Tree.K == "structs" {
		o.Sample = map[string]any{"value": c.Tree, "mode": c17ModeNames[mode], "container_steps": containerSteps}
	}
	return o
}

var c17Once sync.Once

func (p *c17) Exec(ctx core.Ctx, cc any) core.Obs {
	// the cases allocate many small short-lived values and the live heap is tiny: collect less often
	c17Once.Do(func() { debug.SetGCPercent(800) })
	c := cc.(c17Case)
	switch c.Part {
	case "embed":
		var o core.Obs
		c17ExecEmbed(c, &o)
		return o
	case "cachekey":
		var o core.Obs
		c17ExecCacheKey(c, &o)
		return o
	case "path":
		return p.execPath(ctx, c)
	default:
		return p.execSeq(ctx, c)
	}
}
