package props

import (
	"bytes"
	"fmt"
	"strings"

	vuego "github.com/titpetric/vuego"

	"verifharness/core"
	"verifharness/oracle"
)

// C04 "fnnames" part: the loop variable (or index) carries the name of a
// built-in template function that no data defines. Inside its instance the name
// is the item - in every read position, including operator expressions and a
// per-item v-if on the looped element - no matter which expressions were
// evaluated earlier in the same render.

type c04Fn struct {
	Var   string `json:"var"`
	Idx   string `json:"idx,omitempty"`
	Shape string `json:"shape"` // plain | filter (v-if on the looped element) | nested (inner loop, outer loop variable of another name) | template
	Warm  string `json:"warm"`  // none | expr (an operator expression before the loop) | call (the function itself is called before the loop) | loop (an earlier loop over other names)
	Entry string `json:"entry"` // str | file | vue
}

// Only vuego's own functions: upper, lower, len, trim, int, string, type are also
// built-ins of the expression language itself, where they are reserved words -
// no variable of that name (loop variable or not) can be used in an operator
// expression, which is not what this property is about.
var c04FnNames = []string{"title", "default", "escape", "json", "jsonPretty", "formatTime", "formatDate", "file", "jsonFile", "yamlFile"}
var c04FnShapes = []string{"plain", "filter", "nested", "template"}
var c04FnWarms = []string{"none", "expr", "call", "loop"}

func c04NFn() int { return len(c04FnNames) * 3 * len(c04FnShapes) * len(c04FnWarms) }

func c04BuildFn(i int) c04Case {
	f := c04Fn{Entry: []string{"str", "file", "vue"}[i%3]}
	f.Warm = c04FnWarms[i%len(c04FnWarms)]
	i /= len(c04FnWarms)
	f.Shape = c04FnShapes[i%len(c04FnShapes)]
	i /= len(c04FnShapes)
	k := i % 3
	i /= 3
	f.Var = c04FnNames[i%len(c04FnNames)]
	switch k {
	case 1:
		f.Idx = "ix"
	case 2: // the index carries the function name, the item an ordinary one
		f.Idx, f.Var = f.Var, "it"
	}
	return c04Case{Part: "fnnames", Fn: &f}
}

func c04ExecFn(c c04Case, o *core.Obs) {
	f := *c.Fn
	head := f.Var
	if f.Idx != "" {
		head = "(" + f.Idx + ", " + f.Var + ")"
	}
	idx := f.Idx
	if idx == "" {
		idx = "noix" // a root variable holding "-"
	}
	// probe: the item in text, in an operator expression, in a bound attribute, in a v-if; the index likewise
	probe := fmt.Sprintf(`<b data-m="in" :data-v="%s + '!'" data-s="{{ %s }}">[{{ %s }}|{{ %s == 'bb' ? 'Y' : 'N' }}|{{ %s }}|{{ %s == 1 ? 'one' : 'other' }}]<i v-if="%s != 'bb'">keep</i></b>`,
		f.Var, f.Var, f.Var, f.Var, idx, idx, f.Var)
	var loop string
	switch f.Shape {
	case "plain":
		loop = fmt.Sprintf(`<div v-for="%s in items">%s</div>`, head, probe)
	case "filter":
		loop = fmt.Sprintf(`<div v-for="%s in items" v-if="%s != 'aa'">%s</div><p v-else data-m="else">E</p>`, head, f.Var, probe)
	case "nested":
		loop = fmt.Sprintf(`<section v-for="ou in two"><div v-for="%s in items">%s</div></section>`, head, probe)
	default:
		loop = fmt.Sprintf(`<template v-for="%s in items">%s</template>`, head, probe)
	}
	warm := ""
	switch f.Warm {
	case "expr":
		warm = `<p v-if="n == 5">{{ n + 1 }}</p>`
	case "call":
		fn := f.Var
		if f.Idx != "" && f.Var == "it" {
			fn = f.Idx
		}
		switch fn {
		case "formatTime", "formatDate", "file", "jsonFile", "yamlFile", "default":
			warm = `<p>{{ word | upper }}</p>`
		default:
			warm = fmt.Sprintf(`<p>{{ word | %s }}</p><p v-if="n > 1">x</p>`, fn)
		}
	case "loop":
		warm = `<u v-for="(wi, wv) in two" v-if="wv == 2">{{ wv * 2 }}</u>`
	}
	tpl := warm + loop
	data := map[string]any{"items": []any{"aa", "bb", "cc"}, "two": []any{1, 2}, "n": 5, "word": "12", "noix": "-"}
	var b bytes.Buffer
	var err error
	fsys := memFS(map[string]string{"t.vuego": tpl})
	switch f.Entry {
	case "file":
		err = vuego.NewFS(fsys).Load("t.vuego").Fill(data).Render(bg, &b)
	case "vue":
		err = vuego.NewVue(fsys).Render(&b, "t.vuego", data)
	default:
		err = vuego.New().Fill(data).RenderString(bg, &b, tpl)
	}
	o.Evals++
	o.NT("fnnames", mustJSON(f))
	o.Cell("part/fnnames")
	o.Cell("fnnames/shape/" + f.Shape)
	o.Cell("fnnames/warm/" + f.Warm)
	role := "item"
	if f.Var == "it" {
		role = "index"
	}
	o.Cell("fnnames/role/" + role)
	sig := func(what string) string { return fmt.Sprintf("fnnames/%s/%s-named-like-function/%s/warm-%s", what, role, f.Shape, f.Warm) }
	detail := fmt.Sprintf("template: %s\noutput: %s", tpl, clip(b.String(), 700))
	if err != nil {
		o.Fail(c, sig("error"), "render failed: %v\n%s", err, detail)
		return
	}
	doc := oracle.ParseAuto(b.String())
	items := []string{"aa", "bb", "cc"}
	var want []string
	reps := 1
	if f.Shape == "nested" {
		reps = 2
	}
	for r := 0; r < reps; r++ {
		for i, it := range items {
			if f.Shape == "filter" && it == "aa" {
				continue
			}
			ix, one := "-", "other"
			if f.Idx != "" {
				ix = fmt.Sprint(i)
				if i == 1 {
					one = "one"
				}
			}
			yn, keep := "N", "keep"
			if it == "bb" {
				yn, keep = "Y", ""
			}
			want = append(want, fmt.Sprintf("%s!|%s|[%s|%s|%s|%s]%s", it, it, it, yn, ix, one, keep))
		}
	}
	var got []string
	for _, n := range doc.ByAttr("data-m", "in") {
		dv, _ := n.Attr("data-v")
		ds, _ := n.Attr("data-s")
		got = append(got, dv+"|"+ds+"|"+strings.ReplaceAll(n.InnerText(), " ", ""))
	}
	if strings.Join(got, " ; ") != strings.Join(want, " ; ") {
		what := "instance-reads-differ"
		if len(got) != len(want) {
			what = "instance-count"
		}
		o.Fail(c, sig(what), "instances read\n  got  %v\n  want %v\n%s", got, want, detail)
		return
	}
	if f.Shape == "filter" && len(doc.ByAttr("data-m", "else")) != 0 {
		o.Fail(c, sig("else-after-non-empty-loop"), "the v-else sibling was rendered although the loop produced instances\n%s", detail)
	}
}

var _ = core.HashOf
