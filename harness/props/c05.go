package props

import (
	"bytes"
	"encoding/json"
	"fmt"
	"regexp"
	"runtime/debug"
	"sort"
	"strings"
	"sync"

	vuego "github.com/titpetric/vuego"

	"verifharness/core"
	"verifharness/oracle"
)

// C05 — components receive exactly their props; front-matter wins; nothing
// leaks back; :required fails iff a named variable is not visible; a shorthand
// tag behaves exactly like the equivalent <template include>.
//
// A case is a set of files (page + components) forming an include tree. Every
// file prints, before its first include and after each include, the whole name
// universe (value as JSON, Go type, plain text) in marker elements. The oracle
// is a scope calculus written here (includer scope < props < front-matter, a
// fresh scope per instance) that unfolds the same tree and predicts the exact
// sequence of marker elements; the :required predicate is evaluated on the
// same model; shorthand renders are compared byte for byte with the render of
// the same tree written with <template include>.

var c05Names = []string{"pa", "pb", "pc", "pd"}

type c05Attr struct {
	N string `json:"n"`           // prop name
	F string `json:"f"`           // static | interp | bound | vbind
	S string `json:"s,omitempty"` // static text / interpolation prefix
	P string `json:"p,omitempty"` // interpolation suffix
	R string `json:"r,omitempty"` // referenced path (interp, bound, vbind)
}

type c05Inc struct {
	File  int       `json:"file"`
	Short bool      `json:"short,omitempty"` // written as the registered shorthand tag
	Loop  bool      `json:"loop,omitempty"`  // wrapped in <div v-for="it in lv">
	Attrs []c05Attr `json:"attrs,omitempty"`
}

type c05KV struct {
	N string `json:"n"`
	V TV     `json:"v"`
}

type c05File struct {
	Path    string   `json:"path"`
	Tag     string   `json:"tag,omitempty"`
	Wrap    bool     `json:"wrap,omitempty"` // body wrapped in a root <template>
	Req     []string `json:"req,omitempty"`
	ReqForm string   `json:"reqform,omitempty"` // csv | spaces | require | split | dup
	FM      []c05KV  `json:"fm,omitempty"`
	Inc     []c05Inc `json:"inc,omitempty"`
}

type c05Case struct {
	Part  string        `json:"part"`
	Entry string        `json:"entry"` // tpl: NewFS(+WithComponents).Load.Fill.Render | vue: NewVue(+RegisterComponent).Render
	Files []c05File     `json:"files"` // [0] is the page
	Data  map[string]TV `json:"data,omitempty"`
	Wrap  *c05Wrap      `json:"wrap,omitempty"` // wrap part (c05_wrap.go)
	PN    *c05PN        `json:"pn,omitempty"`   // propnames part (c05_pnames.go)
}

type c05 struct{}

func init() {
	core.Register(&c05{}, core.Meta{
		Exhaustive: func(ctx core.Ctx) bool { return false },
		Assumptions: []string{
			"golang.org/x/net/html re-parse of the output is the trusted observer; encoding/json and fmt %T of the harness' own typed values are the reference for the json / type filters",
			"'provided' is read as 'visible to the component' (props, component front-matter, includer variables); a required name bound to nil/null is not judged",
			"a bound prop whose expression is a plain path keeps the value and Go type of the includer's variable; literal expressions in bound props (:n=\"7\") belong to C13 and are not generated",
			"the Go type of front-matter values (YAML decoding) is not judged, only their value",
			"static / interpolated values that look like JSON ({..., [...) are outside the statement and not generated; neither are props named class/style/include, two attributes for the same prop, or references to undefined variables",
			"violation reports are capped per signature and worker process (the cap changes only the report volume, never the verdict)",
		},
		MinNonTrivial: func(ctx core.Ctx) int { return ctx.Pick(20000, 200000) },
	})
}

func (p *c05) ID() string { return "C05" }

func (p *c05) Rule() string {
	return "grid (exhaustive): one include, two props pa,pb, each in every state of {omitted, static, {{ }}, bound truthy, bound falsy} x {component front-matter has the key or not} x {includer has the variable or not} x {listed in :required or not}, x placement {page level, inside a component (includer variable is itself a prop), inside v-for} x syntax {<template include>, shorthand} x entry {Template+WithComponents, Vue+RegisterComponent}; " +
		"types (exhaustive): every JSON-marshalable typed value of the catalogue (JSON-like kinds, all numeric widths, typed slices/maps/structs/pointers, every falsy zero) bound by :p=\"v\", v-bind:p=\"v\", :p=\"o.k\", with/without a colliding includer variable, observed through | json and | type in the component and one level further down (:pb=\"pa\"); " +
		"multi (exhaustive): the same component file included 1-3 times in a row with every combination of {omitted, static, {{ }}, bound} for pa x front-matter x includer variable x :required; " +
		"propnames: 22 prop names that coincide with words the engine uses elsewhere (required, require, content, layout, slot, name, key, is, ref, ...) x {static, {{ }}, bound, shorthand static, shorthand bound} x {listed in the component's :required or not} x {includer has a variable of that name or not} x {page level, inside v-for} x {no condition, v-if, v-else on the include tag itself}: the prop arrives, satisfies :required, shadows the includer's variable inside and is gone after; " +
		"afterslot: a component with props and front-matter read before and after its <slot>, the includer supplying content that binds variables itself (component with props, two components, shorthand, loop, loop with include, scoped slot template, the same component nested) x {include, shorthand} x entry: after the slot the component has exactly its own bindings, an include after the slot passes its :required, nothing reaches the includer; " +
		"selfrec: a tree component that includes itself through its own shorthand tag / through <template include>, 3 levels deep, Template and Vue entry; shadow forms: a map-valued prop / front-matter key named like a map variable of the includer that has more keys (include, shorthand, inside v-for): a key only the includer's map has is not readable in the component through a dotted or bracketed path, a filter head, a bound attribute, a loop collection, a condition, or one include further down; " +
		"names: WithComponents() mapping table for nested directories, shorthand at page level and inside a component; " +
		"tree (seeded random, 40 000 quick / 320 000 thorough): include trees of depth <= 3 and fan-out <= 3 over the name universe {pa,pb,pc,pd}, random prop forms, front-matter subsets, :required subsets in 5 spellings (csv, spaces, :require, split over :required+:require, repeated :require), component files reused by several includes, includes inside v-for, shorthand at any level, typed page data; " +
		"non-trivial = a case whose render reached at least one component instance or was decided by the :required predicate; distinct by the full text of the files and data"
}

func (p *c05) nTree(ctx core.Ctx) int { return ctx.Pick(40000, 320000) }

func (p *c05) Plan(ctx core.Ctx) int {
	return c05NGrid + c05NTypes() + c05NMulti + c05NNames() + p.nTree(ctx) + c05NWrap() + c05NPNames() + c05NSelfRec() + c05NSlot()
}

func (p *c05) Gen(ctx core.Ctx, i int) any {
	if n := c05NGrid + c05NTypes() + c05NMulti + c05NNames() + p.nTree(ctx); i >= n+c05NWrap()+c05NPNames()+c05NSelfRec() {
		return c05GenSlot(i - n - c05NWrap() - c05NPNames() - c05NSelfRec())
	} else if i >= n+c05NWrap()+c05NPNames() {
		return c05GenSelfRec(i - n - c05NWrap() - c05NPNames())
	} else if i >= n+c05NWrap() {
		return c05GenPNames(i - n - c05NWrap())
	} else if i >= n {
		return c05BuildWrap(i - n)
	}
	if i < c05NGrid {
		return c05GenGrid(i)
	}
	i -= c05NGrid
	if i < c05NTypes() {
		return c05GenTypes(i)
	}
	i -= c05NTypes()
	if i < c05NMulti {
		return c05GenMulti(i)
	}
	i -= c05NMulti
	if i < c05NNames() {
		return c05GenNames(i)
	}
	i -= c05NNames()
	return c05GenTree(core.NewRNG(ctx.Seed, 0xC05, uint64(i)))
}

func (p *c05) Decode(raw json.RawMessage) (any, error) { return core.JSONDecode[c05Case](raw) }

// ---------------------------------------------------------------- sources

// c05Helpers are page-level variables present in every case (case data may
// override them). Their names are disjoint from the prop universe, so every
// instance of every tree sees them.
func c05Helpers() map[string]TV {
	return map[string]TV{
		"hs": tvS("HS1"), "hi": tvI(41), "hb": tvB(true), "hf": tvF(2.5),
		"hm": tvMap(map[string]TV{"k": tvS("MK"), "n": tvI(3)}),
		"hl": tvList(tvS("L0"), tvI(5)),
		"o":  tvMap(map[string]TV{"k1": tvS("OK1"), "k2": tvI(77), "z": tvI(0)}),
		"lv": tvList(tvS("LA"), tvI(6)),
		// falsy
		"z0": tvI(0), "zf": tvB(false), "ze": tvS(""), "zn": tvNil(), "zsf": tvS("false"), "zfl": tvF(0), "zu": {K: "uint8"},
		// typed Go values
		"tu": {K: "uint16", U: 9}, "ti8": {K: "int8", I: -3}, "tf32": {K: "float32", F: 0.5},
		"tss": tvKind("[]string", tvS("a"), tvS("b")), "tis": tvKind("[]int", tvI(1), tvI(2)),
		"tms": {K: "map[string]string", M: map[string]TV{"q": tvS("r")}},
		"tit": {K: "Item", M: map[string]TV{"title": tvS("T1"), "count": tvI(2)}},
		"tpi": {K: "*Item", M: map[string]TV{"title": tvS("T2")}},
		"tnp": {K: "nil*Item"},
	}
}

var c05TruthyRefs = []string{"hs", "hi", "hb", "hf", "hm", "hl", "o.k1", "o.k2", "tu", "ti8", "tf32", "tss", "tis", "tms", "tit", "tpi", "tnp"}
var c05FalsyRefs = []string{"z0", "zf", "ze", "zn", "zsf", "zfl", "zu", "o.z"}
var c05ScalarRefs = []string{"hs", "hi", "hb", "o.k1", "o.k2"}

func c05Yaml(t TV) string {
	switch t.K {
	case "nil":
		return "null"
	case "bool":
		return fmt.Sprint(t.B)
	case "int":
		return fmt.Sprint(t.I)
	case "float64":
		return fmt.Sprint(t.F)
	case "string":
		return fmt.Sprintf("%q", t.S)
	case "slice":
		var xs []string
		for _, e := range t.L {
			xs = append(xs, c05Yaml(e))
		}
		return "[" + strings.Join(xs, ", ") + "]"
	case "map":
		var xs []string
		for _, k := range sortedKeys(t.M) {
			xs = append(xs, k+": "+c05Yaml(t.M[k]))
		}
		return "{" + strings.Join(xs, ", ") + "}"
	}
	return "null"
}

func c05Prints(fi int, slot string) string {
	var b strings.Builder
	for _, n := range c05Names {
		fmt.Fprintf(&b, `<i data-m="f%d" data-s="%s" data-n="%s" data-t="{{ %s | type }}" data-j="{{ %s | json }}">{{ %s }}</i>`, fi, slot, n, n, n, n)
	}
	return b.String()
}

func c05ReqAttrs(f c05File) string {
	if len(f.Req) == 0 {
		return ""
	}
	switch f.ReqForm {
	case "spaces":
		return fmt.Sprintf(` :required=" %s "`, strings.Join(f.Req, " , "))
	case "require":
		return fmt.Sprintf(` :require="%s"`, strings.Join(f.Req, ","))
	case "split":
		if len(f.Req) == 1 {
			return fmt.Sprintf(` :require="%s"`, f.Req[0])
		}
		return fmt.Sprintf(` :required="%s" :require="%s"`, f.Req[0], strings.Join(f.Req[1:], ","))
	case "dup":
		var b strings.Builder
		for _, n := range f.Req {
			fmt.Fprintf(&b, ` :require="%s"`, n)
		}
		return b.String()
	}
	return fmt.Sprintf(` :required="%s"`, strings.Join(f.Req, ","))
}

// c05Source writes the text of file fi. long=true writes every include as <template include>.
func c05Source(c *c05Case, fi int, long bool) string {
	f := c.Files[fi]
	var b strings.Builder
	if len(f.FM) > 0 {
		b.WriteString("---\n")
		for _, kv := range f.FM {
			fmt.Fprintf(&b, "%s: %s\n", kv.N, c05Yaml(kv.V))
		}
		b.WriteString("---\n")
	}
	if f.Wrap {
		b.WriteString("<template" + c05ReqAttrs(f) + ">")
	}
	b.WriteString(c05Prints(fi, "pre"))
	for k, inc := range f.Inc {
		if inc.File <= 0 || inc.File >= len(c.Files) {
			continue
		}
		if inc.Loop {
			b.WriteString(`<div v-for="it in lv">`)
		}
		var as strings.Builder
		for _, a := range inc.Attrs {
			switch a.F {
			case "static":
				fmt.Fprintf(&as, ` %s="%s"`, a.N, strings.ReplaceAll(a.S, `"`, "&quot;"))
			case "interp":
				fmt.Fprintf(&as, ` %s="%s{{ %s }}%s"`, a.N, a.S, a.R, a.P)
			case "bound":
				fmt.Fprintf(&as, ` :%s="%s"`, a.N, a.R)
			case "vbind":
				fmt.Fprintf(&as, ` v-bind:%s="%s"`, a.N, a.R)
			}
		}
		t := c.Files[inc.File]
		if inc.Short && !long {
			fmt.Fprintf(&b, `<%s%s></%s>`, t.Tag, as.String(), t.Tag)
		} else {
			fmt.Fprintf(&b, `<template include="%s"%s></template>`, t.Path, as.String())
		}
		b.WriteString(c05Prints(fi, fmt.Sprintf("post%d", k)))
		if inc.Loop {
			b.WriteString(`</div>`)
		}
	}
	if f.Wrap {
		b.WriteString("</template>")
	}
	return b.String()
}

func c05FilesOf(c *c05Case, long bool) map[string]string {
	m := map[string]string{}
	for i := range c.Files {
		m[c.Files[i].Path] = c05Source(c, i, long)
	}
	return m
}

func c05PageData(c *c05Case) map[string]TV {
	d := c05Helpers()
	for k, v := range c.Data {
		d[k] = v
	}
	return d
}

// c05Render renders the page. The third result lists keys that appeared in (or
// vanished from) the caller's data map during the render.
func c05Render(c *c05Case, files map[string]string) (string, error, []string) {
	out, err, data, before := c05RenderRaw(c, files)
	var changed []string
	for k := range data {
		if !before[k] {
			changed = append(changed, "+"+k)
		}
	}
	for k := range before {
		if _, ok := data[k]; !ok {
			changed = append(changed, "-"+k)
		}
	}
	sort.Strings(changed)
	return out, err, changed
}

func c05RenderRaw(c *c05Case, files map[string]string) (string, error, map[string]any, map[string]bool) {
	data := map[string]any{}
	before := map[string]bool{}
	for k, v := range c05PageData(c) {
		if v.K == "missing" {
			continue
		}
		data[k] = v.Go()
		before[k] = true
	}
	fsys := memFS(files)
	var b bytes.Buffer
	if c.Entry == "vue" {
		v := vuego.NewVue(fsys)
		for i := 1; i < len(c.Files); i++ {
			if c.Files[i].Tag != "" {
				v.RegisterComponent(c.Files[i].Tag, c.Files[i].Path)
			}
		}
		err := v.Render(&b, c.Files[0].Path, data)
		return b.String(), err, data, before
	}
	err := vuego.NewFS(fsys, vuego.WithComponents()).Load(c.Files[0].Path).Fill(data).Render(bg, &b)
	return b.String(), err, data, before
}

// ---------------------------------------------------------------- reference model

type c05Val struct {
	V     any
	Def   bool
	J     string // expected output of | json
	T     string // expected output of | type ("" = not judged)
	Src   string // data | static | interp | bound | fm | loop | none
	Falsy string // "", zero, nil, string-false
}

var c05Undef = c05Val{J: "null", T: "<nil>", Src: "none"}

func c05FalsyClass(v any) string {
	switch x := v.(type) {
	case nil:
		return "nil"
	case bool:
		if !x {
			return "zero"
		}
	case string:
		if x == "" {
			return "zero"
		}
		if x == "false" {
			return "string-false"
		}
	case int, int8, int16, int32, int64, uint, uint8, uint16, uint32, uint64, uintptr, float32, float64:
		if fmt.Sprint(x) == "0" {
			return "zero"
		}
	}
	return ""
}

func c05Mk(v any, src string, typeJudged bool) c05Val {
	raw, err := json.Marshal(v)
	j := string(raw)
	if err != nil {
		j = "!unmarshalable"
	}
	r := c05Val{V: v, Def: true, J: j, Src: src, Falsy: c05FalsyClass(v)}
	if typeJudged {
		r.T = fmt.Sprintf("%T", v)
	}
	return r
}

type c05Env map[string]c05Val

func (e c05Env) clone() c05Env {
	n := make(c05Env, len(e)+4)
	for k, v := range e {
		n[k] = v
	}
	return n
}

func (e c05Env) get(n string) c05Val {
	if v, ok := e[n]; ok {
		return v
	}
	return c05Undef
}

// resolve follows a dotted path through map[string]any values.
func (e c05Env) resolve(path string) c05Val {
	parts := strings.Split(path, ".")
	cur := e.get(parts[0])
	if !cur.Def {
		return c05Undef
	}
	if len(parts) == 1 {
		return cur
	}
	v := cur.V
	for _, p := range parts[1:] {
		m, ok := v.(map[string]any)
		if !ok {
			return c05Undef
		}
		v, ok = m[p]
		if !ok {
			return c05Undef
		}
	}
	return c05Mk(v, cur.Src, cur.T != "")
}

type c05Alt struct {
	What string
	J, T string
}

type c05Exp struct {
	File  int
	Slot  string
	Name  string
	Depth int
	Want  c05Val
	Alts  []c05Alt
}

type c05Problem struct {
	File, Inc, Attr int
	Kind            string // undef | falsy | nonscalar
}

type c05ReqMiss struct {
	File int
	Name string
	Why  string // absent | nil
}

type c05Model struct {
	c        *c05Case
	exps     []c05Exp
	must     []c05ReqMiss
	may      []c05ReqMiss
	problems []c05Problem
	inst     int
	maxDepth int
	cells    map[string]int
	aborted  bool
}

func (m *c05Model) cell(s string) { m.cells[s]++ }

func c05Scalar(v any) (string, bool) {
	switch x := v.(type) {
	case nil:
		return "", true
	case string:
		return x, true
	case bool:
		return fmt.Sprint(x), true
	case int:
		return fmt.Sprint(x), true
	}
	return "", false
}

type c05Layers struct {
	includer c05Env
	props    map[string]c05Val
	fm       map[string]c05Val
}

func (m *c05Model) run() {
	m.cells = map[string]int{}
	env := c05Env{}
	for k, v := range c05PageData(m.c) {
		if v.K == "missing" {
			continue
		}
		env[k] = c05Mk(v.Go(), "data", true)
	}
	m.walk(0, env, 0, nil)
}

func (m *c05Model) emit(fi int, slot string, depth int, env c05Env, lay *c05Layers, child *c05Layers) {
	for _, n := range c05Names {
		e := c05Exp{File: fi, Slot: slot, Name: n, Depth: depth, Want: env.get(n)}
		if child != nil {
			if v, ok := child.fm[n]; ok {
				e.Alts = append(e.Alts, c05Alt{"leaked-child-front-matter", v.J, v.T})
			}
			if v, ok := child.props[n]; ok {
				e.Alts = append(e.Alts, c05Alt{"leaked-child-prop", v.J, v.T})
			}
		}
		if lay != nil {
			if v, ok := lay.fm[n]; ok {
				e.Alts = append(e.Alts, c05Alt{"component-front-matter", v.J, v.T})
			}
			if v, ok := lay.props[n]; ok {
				e.Alts = append(e.Alts, c05Alt{"prop", v.J, v.T})
			}
			if v := lay.includer.get(n); v.Def {
				e.Alts = append(e.Alts, c05Alt{"includer-value", v.J, v.T})
			}
		}
		m.exps = append(m.exps, e)
	}
}

func (m *c05Model) walk(fi int, env c05Env, depth int, lay *c05Layers) {
	if m.aborted {
		return
	}
	if depth > 8 || m.inst > 4000 {
		m.aborted = true
		return
	}
	f := m.c.Files[fi]
	if depth > m.maxDepth {
		m.maxDepth = depth
	}
	if depth > 0 {
		m.inst++
		if f.Wrap {
			for _, n := range f.Req {
				v := env.get(n)
				switch {
				case !v.Def:
					m.must = append(m.must, c05ReqMiss{fi, n, "absent"})
					m.cell("required/missing")
				case v.V == nil:
					m.may = append(m.may, c05ReqMiss{fi, n, "nil"})
					m.cell("not-judged/required-name-is-nil")
				default:
					by := "includer"
					if _, ok := lay.fm[n]; ok {
						by = "front-matter"
					} else if pv, ok := lay.props[n]; ok {
						by = "prop-" + pv.Src
						if pv.Falsy != "" {
							by += "-falsy"
						}
					}
					m.cell("required/satisfied-by-" + by)
				}
			}
			if len(f.Req) > 0 {
				m.cell("required-form/" + c05Form(f))
			}
		}
	}
	m.emit(fi, "pre", depth, env, lay, nil)
	for k, inc := range f.Inc {
		if inc.File <= 0 || inc.File >= len(m.c.Files) {
			continue
		}
		iters := []c05Env{env}
		if inc.Loop {
			iters = nil
			lv := env.get("lv")
			if xs, ok := lv.V.([]any); ok {
				for _, x := range xs {
					e2 := env.clone()
					e2["it"] = c05Mk(x, "loop", true)
					iters = append(iters, e2)
				}
			}
			m.cell("placement/include-inside-v-for")
		}
		for _, e2 := range iters {
			child := m.c.Files[inc.File]
			cl := &c05Layers{includer: e2, props: map[string]c05Val{}, fm: map[string]c05Val{}}
			ce := e2.clone()
			for ai, a := range inc.Attrs {
				var pv c05Val
				switch a.F {
				case "static":
					pv = c05Mk(a.S, "static", true)
				case "interp":
					r := e2.resolve(a.R)
					s, ok := c05Scalar(r.V)
					if !r.Def {
						m.problems = append(m.problems, c05Problem{fi, k, ai, "undef"})
					} else if !ok || r.V == nil {
						m.problems = append(m.problems, c05Problem{fi, k, ai, "nonscalar"})
					}
					pv = c05Mk(a.S+s+a.P, "interp", true)
				case "bound", "vbind":
					r := e2.resolve(a.R)
					if !r.Def {
						m.problems = append(m.problems, c05Problem{fi, k, ai, "undef"})
					} else if r.Falsy != "" {
						m.problems = append(m.problems, c05Problem{fi, k, ai, "falsy"})
					}
					pv = c05Mk(r.V, "bound", r.T != "")
				default:
					continue
				}
				cl.props[a.N] = pv
				ce[a.N] = pv
				coll := "free"
				inIncluder := e2.get(a.N).Def
				_, inFM := c05FMHas(child, a.N)
				switch {
				case inIncluder && inFM:
					coll = "collides-with-includer-and-front-matter"
				case inIncluder:
					coll = "collides-with-includer"
				case inFM:
					coll = "collides-with-front-matter"
				}
				form := a.F
				if pv.Falsy != "" && (a.F == "bound" || a.F == "vbind") {
					form += "-falsy"
				}
				m.cell("prop/" + form + "/" + coll)
			}
			for _, kv := range child.FM {
				v := c05Mk(kv.V.Go(), "fm", false)
				cl.fm[kv.N] = v
				ce[kv.N] = v
				if _, isProp := cl.props[kv.N]; !isProp {
					if e2.get(kv.N).Def {
						m.cell("front-matter/collides-with-includer")
					} else {
						m.cell("front-matter/free")
					}
				}
			}
			if inc.Short {
				lvl := "page"
				if depth > 0 {
					lvl = "component"
				}
				m.cell("shorthand/in-" + lvl + "/" + m.c.Entry)
			}
			m.walk(inc.File, ce, depth+1, cl)
			m.emit(fi, fmt.Sprintf("post%d", k), depth, e2, lay, cl)
		}
	}
}

func c05Form(f c05File) string {
	if f.ReqForm == "" {
		return "csv"
	}
	return f.ReqForm
}

func c05FMHas(f c05File, n string) (TV, bool) {
	for _, kv := range f.FM {
		if kv.N == n {
			return kv.V, true
		}
	}
	return TV{}, false
}

// ---------------------------------------------------------------- execution

type c05ObsEl struct {
	M, S, N, T, J, Text string
}

var c05QuotedName = regexp.MustCompile(`'([^']*)'`)

// report cap per signature and process
var (
	c05CapMu sync.Mutex
	c05Cap   = map[string]int{}
)

const c05CapPerSig = 30

func c05Fail(o *core.Obs, c c05Case, sig, format string, args ...any) {
	c05CapMu.Lock()
	c05Cap[sig]++
	n := c05Cap[sig]
	c05CapMu.Unlock()
	if n > c05CapPerSig {
		o.Count("violations_not_reported_beyond_cap", 1)
		return
	}
	o.Fail(c, sig, format, args...)
}

func c05Describe(c *c05Case, files map[string]string) string {
	var b strings.Builder
	for _, k := range sortedKeys(files) {
		fmt.Fprintf(&b, "--- %s\n%s\n", k, clip(c05Compact(files[k]), 1500))
	}
	fmt.Fprintf(&b, "data (beside the fixed helpers): %s entry=%s", mustJSON(c.Data), c.Entry)
	return b.String()
}

var c05PrintRe = regexp.MustCompile(`<i data-m="(f\d+)" data-s="(\w+)" data-n="(\w+)"[^<]*</i>`)

// c05Compact shortens the marker elements in a source text for reports.
func c05Compact(s string) string {
	s = c05PrintRe.ReplaceAllString(s, "")
	return s
}

// the cases allocate many short-lived small objects; a lazier collector
// roughly halves the wall time of a worker and changes nothing else.
var c05GCOnce sync.Once

func (p *c05) Exec(ctx core.Ctx, cc any) core.Obs {
	c05GCOnce.Do(func() { debug.SetGCPercent(300); debug.SetMemoryLimit(1 << 30) })
	c := cc.(c05Case)
	var o core.Obs
	if c.Part == "wrap" && c.Wrap != nil {
		c05ExecWrap(c, &o)
		return o
	}
	if c.Part == "afterslot" && c.PN != nil {
		c05ExecSlot(c, &o)
		return o
	}
	if c.Part == "selfrec" && c.PN != nil {
		c05ExecSelfRec(c, &o)
		return o
	}
	if c.Part == "propnames" && c.PN != nil {
		c05ExecPNames(c, &o)
		return o
	}
	if len(c.Files) == 0 {
		return o
	}
	m := &c05Model{c: &c}
	m.run()
	if m.aborted {
		o.Inconclusive = "model aborted (tree too large)"
		return o
	}
	for _, pr := range m.problems {
		if pr.Kind == "undef" || pr.Kind == "nonscalar" {
			o.Cell("not-judged/reference-to-undefined-or-composite-value")
			return o
		}
	}
	anyShort := false
	for _, f := range c.Files {
		for _, inc := range f.Inc {
			if inc.Short {
				anyShort = true
			}
		}
	}
	files := c05FilesOf(&c, false)
	out, err, changed := c05Render(&c, files)
	o.Evals++
	if len(changed) > 0 {
		c05Fail(&o, c, "leak/callers-data-map-modified/"+c.Entry, "the map passed as page data was modified by the render: %v\n%s", changed, c05Describe(&c, files))
	} else {
		o.Cell("leak-check/callers-data-map-unchanged")
	}
	for k, v := range m.cells {
		for j := 0; j < v; j++ {
			o.Cell(k)
		}
	}
	o.Cell("part/" + c.Part)
	o.Cell(fmt.Sprintf("depth/%d", m.maxDepth))
	o.Count("component_instances", int64(m.inst))
	c05Shape(&c, &o)
	if m.inst > 0 || len(m.must) > 0 {
		var hb strings.Builder
		for _, k := range sortedKeys(files) {
			hb.WriteString(k)
			hb.WriteString(files[k])
		}
		o.NT(hb.String(), mustJSON(c.Data), c.Entry)
	}

	vs := p.judge(&c, &o, m, files, out, err)

	// differential: shorthand vs <template include>
	if anyShort {
		lfiles := c05FilesOf(&c, true)
		lout, lerr, _ := c05Render(&c, lfiles)
		o.Evals++
		lvl := "page"
		for i, f := range c.Files {
			for _, inc := range f.Inc {
				if inc.Short && i > 0 {
					lvl = "component"
				}
			}
		}
		o.Cell("differential/shorthand-vs-include/" + c.Entry)
		var dv *c05V
		switch {
		case (err == nil) != (lerr == nil) || (err != nil && err.Error() != lerr.Error()):
			dv = &c05V{"shorthand/differs-from-include/error/in-" + lvl,
				fmt.Sprintf("shorthand render error=%v, <template include> render error=%v\n%s", errStr(err), errStr(lerr), c05Describe(&c, files))}
		case err == nil && c05NoPtr(out) != c05NoPtr(lout):
			dv = &c05V{"shorthand/differs-from-include/bytes/in-" + lvl,
				fmt.Sprintf("the render with shorthand tags is not byte-identical to the render with <template include>\nshorthand: %s\ninclude:   %s\n%s", clip(out, 1200), clip(lout, 1200), c05Describe(&c, files))}
		}
		if dv != nil {
			shorthandSig := len(vs) > 0 && strings.HasPrefix(vs[0].Sig, "shorthand/")
			switch {
			case shorthandSig:
				// the model oracle already names the shorthand defect precisely
			case len(vs) > 0:
				// does the same tree written with <template include> satisfy the model? then the
				// defect is specific to the shorthand and the differential is its signature
				var scratch core.Obs
				if lvs := p.judge(&c, &scratch, m, lfiles, lout, lerr); len(lvs) == 0 {
					dv.Detail += "\n(model oracle on the shorthand render: " + vs[0].Sig + ")"
					vs = []c05V{*dv}
				} else {
					vs = append(vs, *dv)
				}
			default:
				vs = append(vs, *dv)
			}
		}
	}
	for _, v := range vs {
		c05Fail(&o, c, v.Sig, "%s", v.Detail)
	}
	if c.Part == "tree" && m.inst >= 6 && len(m.must) == 0 {
		o.Sample = map[string]any{"files": files, "data": c.Data, "instances": m.inst, "output": clip(out, 600)}
	}
	return o
}

func c05Shape(c *c05Case, o *core.Obs) {
	uses := map[int]int{}
	for _, f := range c.Files {
		per := map[int]int{}
		for _, inc := range f.Inc {
			per[inc.File]++
			uses[inc.File]++
		}
		for _, n := range per {
			if n > 1 {
				o.Cell(fmt.Sprintf("same-component-included/x%d-by-one-file", n))
			}
		}
		if len(f.Inc) > 0 {
			o.Cell(fmt.Sprintf("fan-out/%d", len(f.Inc)))
		}
	}
	for _, n := range uses {
		if n > 1 {
			o.Cell("same-component-included/from-several-places")
			break
		}
	}
}

type c05V struct{ Sig, Detail string }

// judge applies the reference model to one render and returns the violations found (at most one per render).
func (p *c05) judge(c *c05Case, o *core.Obs, m *c05Model, files map[string]string, out string, err error) []c05V {
	var vs []c05V
	fail := func(sig, format string, args ...any) {
		vs = append(vs, c05V{sig, fmt.Sprintf(format, args...)})
	}
	missNames := map[string]string{}
	for _, x := range m.may {
		missNames[x.Name] = "nil"
	}
	for _, x := range m.must {
		missNames[x.Name] = "absent"
	}
	if err != nil {
		msg := err.Error()
		var quoted []string
		for _, q := range c05QuotedName.FindAllStringSubmatch(msg, -1) {
			quoted = append(quoted, q[1])
		}
		isReq := strings.Contains(msg, "required")
		named, providedNamed := "", ""
		if isReq {
			for _, q := range quoted {
				if w, ok := missNames[q]; ok {
					if named == "" || w == "absent" {
						named = q
					}
				} else if c05IsName(q) {
					providedNamed = q
				}
			}
		}
		if named == "" && providedNamed == "" {
			for n := range missNames {
				if regexp.MustCompile(`(^|[^A-Za-z0-9_])` + regexp.QuoteMeta(n) + `($|[^A-Za-z0-9_])`).MatchString(msg) {
					if named == "" || missNames[n] == "absent" {
						named = n
					}
				}
			}
		}
		switch {
		case named != "" && missNames[named] == "absent":
			o.Cell("required/error-names-missing-variable")
		case named != "":
			o.Cell("not-judged/required-name-is-nil/error")
		case providedNamed != "":
			// the error blames a variable that is visible to every instance requiring it
			fail("required/error-although-provided/"+c05HowBound(m, providedNamed), "the render failed blaming %q, which the reference model finds visible to every component requiring it: %v\n%s", providedNamed, msg, c05Describe(c, files))
		case len(m.must) > 0:
			fail("required/error-does-not-name-variable", "a required variable is missing (%v) and the render failed, but the error names none of them: %v\n%s", m.must, msg, c05Describe(c, files))
		case isReq:
			fail("required/error-although-provided/other", "every :required name is visible to its component in the reference model, yet the render failed: %v\n%s", msg, c05Describe(c, files))
		default:
			cls := "other"
			switch {
			case strings.Contains(msg, "error loading") || strings.Contains(msg, "error reading"):
				cls = "load"
			case strings.Contains(msg, "depth"):
				cls = "depth"
			case strings.Contains(msg, "parsing"):
				cls = "parse"
			}
			fail("render-error/"+cls, "unexpected render error: %v\n%s", msg, c05Describe(c, files))
		}
		return vs
	}
	if len(m.must) > 0 {
		x := m.must[0]
		spelling := "one-attribute"
		if f := c05Form(c.Files[x.File]); (f == "split" || f == "dup") && len(c.Files[x.File].Req) > 1 {
			spelling = "several-attributes"
		} else if len(c.Files[x.File].Req) > 1 {
			spelling = "one-attribute-csv"
		}
		fail("required/missing-but-no-error/"+spelling, "%s lists %q in %s but no such variable is visible to the instance (props, front-matter, includer); the render succeeded\noutput: %s\n%s",
			c.Files[x.File].Path, x.Name, strings.TrimSpace(c05ReqAttrs(c.Files[x.File])), clip(out, 400), c05Describe(c, files))
		return vs
	}
	if len(m.may) > 0 {
		o.Cell("not-judged/required-name-is-nil/no-error")
	} else {
		o.Cell("required/no-error-when-all-visible")
	}

	// observations
	doc := oracle.Parse(out, false)
	var obs []c05ObsEl
	tags := map[string]bool{}
	for _, f := range c.Files[1:] {
		if f.Tag != "" {
			tags[f.Tag] = true
		}
	}
	unresolved := ""
	doc.Walk(func(n *oracle.N) {
		if n.Kind != "el" {
			return
		}
		if tags[n.Name] && unresolved == "" {
			unresolved = n.Name
		}
		if n.Name == "template" && unresolved == "" {
			if _, ok := n.Attr("include"); ok {
				unresolved = "template"
			}
		}
		if n.Name != "i" {
			return
		}
		mk, ok := n.Attr("data-m")
		if !ok {
			return
		}
		e := c05ObsEl{M: mk, Text: n.RawText()}
		e.S, _ = n.Attr("data-s")
		e.N, _ = n.Attr("data-n")
		e.T, _ = n.Attr("data-t")
		e.J, _ = n.Attr("data-j")
		obs = append(obs, e)
	})
	if unresolved != "" {
		lvl := "page"
		for i, f := range c.Files {
			for _, inc := range f.Inc {
				if inc.Short && i > 0 && c.Files[inc.File].Tag == unresolved {
					lvl = "component"
				}
			}
		}
		fail("shorthand/not-resolved/in-"+lvl, "element <%s> was emitted instead of being replaced by its component\noutput: %s\n%s", unresolved, clip(out, 600), c05Describe(c, files))
		return vs
	}
	seqOK := len(obs) == len(m.exps)
	if seqOK {
		for k, e := range m.exps {
			if obs[k].M != fmt.Sprintf("f%d", e.File) || obs[k].S != e.Slot || obs[k].N != e.Name {
				seqOK = false
				break
			}
		}
	}
	if !seqOK {
		var want, got []string
		for _, e := range m.exps {
			if e.Name == c05Names[0] {
				want = append(want, fmt.Sprintf("f%d:%s", e.File, e.Slot))
			}
		}
		for _, e := range obs {
			if e.N == c05Names[0] {
				got = append(got, e.M+":"+e.S)
			}
		}
		kind := "fewer-instances"
		if len(obs) > len(m.exps) {
			kind = "more-instances"
		} else if len(obs) == len(m.exps) {
			kind = "different-order"
		}
		fail("structure/"+kind, "the sequence of printed blocks differs from the unfolded include tree\nwant %v\ngot  %v\noutput: %s\n%s", want, got, clip(out, 600), c05Describe(c, files))
		return vs
	}
	post, fmT := 0, 0
	for k, e := range m.exps {
		g := obs[k]
		where := "in-component"
		if strings.HasPrefix(e.Slot, "post") {
			post++
			where = "after-include-in-component"
			if e.Depth == 0 {
				where = "after-include-in-page"
			}
		} else if e.Depth == 0 {
			where = "page-before-includes"
		}
		jBad := g.J != e.Want.J
		tBad := e.Want.T != "" && g.T != e.Want.T
		if jBad || tBad {
			got := ""
			for _, a := range e.Alts {
				if a.J == g.J && (a.T == "" || a.T == g.T) {
					got = a.What
					break
				}
			}
			if got == "" && g.J == "null" && g.T == "<nil>" {
				got = "nothing"
			}
			if (got == "nothing" || got == "includer-value") && c05HasIncluder(e) {
				// the component saw exactly what its includer sees: the layer that should have set the name had no effect
				got = "what-the-includer-sees"
			}
			if got == "" && jBad {
				got = "other-value"
			}
			if got != "" {
				sig := fmt.Sprintf("value/%s/want-%s/got-%s", where, c05SrcName(e.Want), got)
				if strings.HasPrefix(got, "leaked-") {
					// a binding of the component just included is visible afterwards: what it shadows does not matter
					sig = fmt.Sprintf("leak/%s/%s", where, got)
				}
				fail(sig, "%s, block %s, name %s: reference scope calculus (includer < props < front-matter) predicts json=%s type=%s (from %s), observed json=%s type=%s text=%q (%s)\n%s",
					c.Files[e.File].Path, e.Slot, e.Name, e.Want.J, e.Want.T, e.Want.Src, g.J, g.T, g.Text, got, c05Describe(c, files))
				return vs
			}
			cls := "other"
			switch g.T {
			case "string":
				cls = "became-string"
			case "float64":
				cls = "became-float64"
			case "<nil>":
				cls = "became-nil"
			}
			fail(fmt.Sprintf("type/%s/want-%s/%s", where, c05SrcName(e.Want), cls), "%s, block %s, name %s: value %s should have Go type %s, | type printed %s\n%s",
				c.Files[e.File].Path, e.Slot, e.Name, e.Want.J, e.Want.T, g.T, c05Describe(c, files))
			return vs
		}
		if e.Want.T == "" && e.Want.Def {
			fmT++
		}
		if s, ok := c05Scalar(e.Want.V); ok && g.Text != s {
			// the expected type was not judged (front-matter origin); if another layer explains value, type and text, name it
			if e.Want.T == "" {
				for _, a := range e.Alts {
					if a.J == g.J && a.T != "" && a.T == g.T {
						got := a.What
						if got == "includer-value" {
							got = "what-the-includer-sees"
						}
						sig := fmt.Sprintf("value/%s/want-%s/got-%s", where, c05SrcName(e.Want), got)
						if strings.HasPrefix(got, "leaked-") {
							sig = fmt.Sprintf("leak/%s/%s", where, got)
						}
						fail(sig, "%s, block %s, name %s: reference scope calculus predicts json=%s printed as %q (from %s), observed json=%s type=%s text=%q (%s)\n%s",
							c.Files[e.File].Path, e.Slot, e.Name, e.Want.J, s, e.Want.Src, g.J, g.T, g.Text, got, c05Describe(c, files))
						return vs
					}
				}
			}
			fail(fmt.Sprintf("text/%s/want-%s", where, c05SrcName(e.Want)), "%s, block %s, name %s: {{ %s }} printed %q, want %q\n%s",
				c.Files[e.File].Path, e.Slot, e.Name, e.Name, g.Text, s, c05Describe(c, files))
			return vs
		}
	}
	o.Count("observations_compared", int64(len(m.exps)))
	o.Count("leak_observations_after_an_include", int64(post))
	if post > 0 {
		o.Cell("leak-check/names-re-read-after-include")
	}
	if fmT > 0 {
		o.Cell("not-judged/type-of-front-matter-value")
		o.Count("front_matter_values_whose_type_was_not_judged", int64(fmT))
	}
	return vs
}

// c05HasIncluder tells whether the expectation belongs to a component instance (it has an includer).
func c05HasIncluder(e c05Exp) bool { return e.Depth > 0 }

func c05IsName(s string) bool {
	for _, n := range c05Names {
		if n == s {
			return true
		}
	}
	return false
}

var c05PtrRe = regexp.MustCompile(`0x[0-9a-f]{6,}`)

// c05NoPtr masks printed pointer addresses ({{ x }} of a []*T prints them), which differ between any two renders.
func c05NoPtr(s string) string { return c05PtrRe.ReplaceAllString(s, "0xPTR") }

func c05SrcName(v c05Val) string {
	s := v.Src
	switch s {
	case "fm":
		s = "front-matter"
	case "data":
		s = "page-data"
	case "none":
		s = "undefined"
	case "bound":
		s = "bound-prop"
		if v.Falsy != "" {
			s += "(" + v.Falsy + ")"
		}
	case "static":
		s = "static-prop"
	case "interp":
		s = "interpolated-prop"
	case "loop":
		s = "loop-variable"
	}
	return s
}

// c05HowBound tells how the reference model bound name n in the instances requiring it.
func c05HowBound(m *c05Model, n string) string {
	how := "other"
	falsy := false
	var walk func(fi int, env c05Env, depth int)
	seen := 0
	walk = func(fi int, env c05Env, depth int) {
		if seen > 5000 || depth > 8 {
			return
		}
		seen++
		f := m.c.Files[fi]
		for _, inc := range f.Inc {
			if inc.File <= 0 || inc.File >= len(m.c.Files) {
				continue
			}
			child := m.c.Files[inc.File]
			ce := env.clone()
			if inc.Loop {
				if xs, ok := env.get("lv").V.([]any); ok && len(xs) > 0 {
					ce["it"] = c05Mk(xs[0], "loop", true)
				}
			}
			base := ce.clone()
			req := false
			for _, r := range child.Req {
				if r == n && child.Wrap {
					req = true
				}
			}
			for _, a := range inc.Attrs {
				switch a.F {
				case "static":
					ce[a.N] = c05Mk(a.S, "static", true)
				case "interp":
					ce[a.N] = c05Mk("", "interp", true)
				case "bound", "vbind":
					r := base.resolve(a.R)
					ce[a.N] = c05Mk(r.V, "bound", true)
				}
			}
			for _, kv := range child.FM {
				ce[kv.N] = c05Mk(kv.V.Go(), "fm", false)
			}
			if req {
				v := ce.get(n)
				_, inFM := c05FMHas(child, n)
				isProp := false
				for _, a := range inc.Attrs {
					if a.N == n {
						isProp = true
					}
				}
				switch {
				case inFM && how == "other":
					how = "front-matter"
				case inFM:
				case v.Src == "bound" && v.Falsy != "":
					// (possibly inherited from an ancestor instance)
					how = "bound-prop(" + v.Falsy + ")"
					falsy = true
				case falsy:
				case isProp && how == "other":
					how = "prop"
				case v.Def && how == "other":
					how = "includer"
				}
			}
			walk(inc.File, ce, depth+1)
		}
	}
	env := c05Env{}
	for k, v := range c05PageData(m.c) {
		if v.K != "missing" {
			env[k] = c05Mk(v.Go(), "data", true)
		}
	}
	walk(0, env, 0)
	return how
}
