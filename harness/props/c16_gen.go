package props

import (
	"fmt"

	"verifharness/core"
)

// ---- builder shared by the enumerated and the random part

type c16B struct {
	nm, nw, nid int
	comps       []c16File
}

func (b *c16B) once(tag string) c16Node {
	b.nm++
	return c16Node{K: "once", Tag: tag, M: fmt.Sprintf("m%d", b.nm)}
}

func (b *c16B) wit() c16Node {
	b.nw++
	return c16Node{K: "el", M: fmt.Sprintf("w%d", b.nw)}
}

func (b *c16B) id() int { b.nid++; return b.nid }

func (b *c16B) comp(form string, body []c16Node) int {
	k := len(b.comps)
	b.comps = append(b.comps, c16File{Name: fmt.Sprintf("c%d.vuego", k), Form: form, Body: body})
	return k
}

func c16AllOn(n int) []bool {
	on := make([]bool, n)
	for i := range on {
		on[i] = true
	}
	return on
}

// ---- wrappers of the enumerated part

type c16W struct {
	Kind string // none for tfor if forif inc incfor slotfor slot2
	N    int
	Mask []bool
	Form string
	Cond string
}

func (w c16W) label() string {
	if w.Form != "" {
		return w.Kind + ":" + w.Form
	}
	if w.Kind == "if" {
		return "if:" + w.Cond
	}
	return w.Kind
}

func c16Wraps(thorough bool) []c16W {
	T, F := true, false
	if !thorough {
		return []c16W{
			{Kind: "none"},
			{Kind: "for", N: 0}, {Kind: "for", N: 3},
			{Kind: "tfor", N: 2},
			{Kind: "if", Cond: "T"}, {Kind: "if", Cond: "F"},
			{Kind: "forif", Mask: []bool{F, T, T}},
			{Kind: "inc", N: 1, Form: "bare"}, {Kind: "inc", N: 3, Form: "bare"}, {Kind: "inc", N: 2, Form: "troot"},
			{Kind: "incfor", N: 3, Form: "bare"},
			{Kind: "slotfor", N: 2}, {Kind: "slot2"},
		}
	}
	ws := []c16W{{Kind: "none"}}
	for n := 0; n <= 3; n++ {
		ws = append(ws, c16W{Kind: "for", N: n})
	}
	ws = append(ws, c16W{Kind: "tfor", N: 2}, c16W{Kind: "tfor", N: 3})
	ws = append(ws, c16W{Kind: "if", Cond: "T"}, c16W{Kind: "if", Cond: "F"})
	for _, m := range [][]bool{{F, T, T}, {F, F, F}, {T, F, T}} {
		ws = append(ws, c16W{Kind: "forif", Mask: m})
	}
	for _, form := range []string{"bare", "troot"} {
		for n := 1; n <= 3; n++ {
			ws = append(ws, c16W{Kind: "inc", N: n, Form: form})
		}
		for _, n := range []int{0, 3} {
			ws = append(ws, c16W{Kind: "incfor", N: n, Form: form})
		}
	}
	for n := 1; n <= 3; n++ {
		ws = append(ws, c16W{Kind: "slotfor", N: n})
	}
	ws = append(ws, c16W{Kind: "slot2"})
	return ws
}

func (b *c16B) wrap(w c16W, payload []c16Node) []c16Node {
	switch w.Kind {
	case "for", "tfor":
		return []c16Node{{K: w.Kind, ID: b.id(), On: c16AllOn(w.N), Kids: payload}}
	case "if":
		return []c16Node{{K: "if", Cond: w.Cond, Kids: payload}}
	case "forif":
		id := b.id()
		return []c16Node{{K: "for", ID: id, On: w.Mask, Kids: []c16Node{b.wit(), {K: "if", Cond: "x", Ref: id, Kids: payload}}}}
	case "inc":
		k := b.comp(w.Form, append([]c16Node{b.wit()}, payload...))
		var out []c16Node
		for i := 0; i < w.N; i++ {
			out = append(out, c16Node{K: "inc", Comp: k})
		}
		return out
	case "incfor":
		k := b.comp(w.Form, append([]c16Node{b.wit()}, payload...))
		return []c16Node{{K: "inc", Comp: k, Loop: true, ID: b.id(), On: c16AllOn(w.N)}}
	case "slotfor":
		sec := b.wit()
		sec.Kids = []c16Node{{K: "slot"}}
		k := b.comp("bare", []c16Node{b.wit(), sec})
		return []c16Node{{K: "for", ID: b.id(), On: c16AllOn(w.N), Kids: []c16Node{{K: "inc", Comp: k, Kids: payload}}}}
	case "slot2":
		k := b.comp("bare", []c16Node{b.wit(), {K: "slot"}, {K: "slot"}})
		return []c16Node{{K: "inc", Comp: k, Kids: payload}}
	}
	return payload
}

// ---- payloads: arrangements of marked elements

var c16PayloadNames = []string{
	"script", "style", "div", "script+style", "div+div+script", "nested",
	"self-for:0", "self-for:1", "self-for:3", "self-if:T", "self-if:F", "self-for:2+style",
}

func (b *c16B) payload(k int) []c16Node {
	w := b.wit()
	switch k {
	case 0:
		return []c16Node{w, b.once("script")}
	case 1:
		return []c16Node{b.once("style"), w}
	case 2:
		d := b.once("div")
		d.Kids = []c16Node{b.wit()}
		return []c16Node{w, d}
	case 3:
		return []c16Node{b.once("script"), w, b.once("style")}
	case 4:
		d1, d2 := b.once("div"), b.once("div")
		d1.Kids = []c16Node{b.wit()}
		return []c16Node{d1, d2, w, b.once("script")}
	case 5:
		d := b.once("div")
		d.Kids = []c16Node{b.wit(), b.once("script")}
		return []c16Node{w, d, b.once("style")}
	case 6, 7, 8:
		n := []int{0, 1, 3}[k-6]
		e := b.once([]string{"div", "div", "script"}[k-6])
		e.Loop, e.ID, e.On = true, b.id(), c16AllOn(n)
		return []c16Node{w, e}
	case 9:
		e := b.once("div")
		e.Cond = "T"
		return []c16Node{w, e}
	case 10:
		e := b.once("script")
		e.Cond = "F"
		return []c16Node{w, e}
	default:
		e := b.once("div")
		e.Loop, e.ID, e.On = true, b.id(), c16AllOn(2)
		return []c16Node{e, w, b.once("style")}
	}
}

var c16Targets = []string{"page", "layout", "default-layout-doc", "page+layout-shared-components", "layout-chain"}

func c16EnumCount(thorough bool) int {
	n := len(c16Wraps(thorough))
	return len(c16Targets) * n * n * len(c16PayloadNames) * c16Extras(thorough)
}

// c16Extras: with and without a further marked sibling beside the inner wrapper (quick: always with).
func c16Extras(thorough bool) int {
	if thorough {
		return 2
	}
	return 1
}

func c16Enum(thorough bool, i int) c16Case {
	ws := c16Wraps(thorough)
	extra := 1
	if thorough {
		extra = i % 2
		i /= 2
	}
	pk := i % len(c16PayloadNames)
	i /= len(c16PayloadNames)
	w2 := ws[i%len(ws)]
	i /= len(ws)
	w1 := ws[i%len(ws)]
	i /= len(ws)
	target := c16Targets[i%len(c16Targets)]

	b := &c16B{}
	inner := b.wrap(w2, b.payload(pk))
	mid := append([]c16Node{b.wit()}, inner...)
	if extra == 1 {
		mid = append(mid, b.once("script"))
	}
	nodes := b.wrap(w1, mid)

	c := c16Case{Part: "enum"}
	c.Label = fmt.Sprintf("target/%s wrap/%s>%s payload/%s", target, w1.label(), w2.label(), c16PayloadNames[pk])
	allComps := func() []c16Node {
		var out []c16Node
		for k := range b.comps {
			out = append(out, c16Node{K: "inc", Comp: k})
		}
		return out
	}
	simplePage := func() []c16Node { return []c16Node{b.wit(), b.once("script")} }
	content := c16Node{K: "content"}
	switch target {
	case "page":
		c.Page = c16File{Name: "p.vuego", Body: nodes}
	case "layout":
		c.Page = c16File{Name: "p.vuego", Layout: "l0", Body: simplePage()}
		c.Layouts = []c16File{{Name: "layouts/l0.vuego", Form: "frag", Body: append(append([]c16Node{}, nodes...), content)}}
	case "default-layout-doc":
		c.Page = c16File{Name: "p.vuego", Body: simplePage()}
		c.Layouts = []c16File{{Name: "layouts/base.vuego", Form: "doc", Head: []c16Node{b.once("script")}, Body: append([]c16Node{content}, nodes...)}}
	case "page+layout-shared-components":
		c.Page = c16File{Name: "p.vuego", Layout: "l0", Body: nodes}
		c.Layouts = []c16File{{Name: "layouts/l0.vuego", Form: "frag", Body: append(append([]c16Node{b.wit(), content}, allComps()...), b.once("style"))}}
	case "layout-chain":
		c.Page = c16File{Name: "p.vuego", Layout: "l0", Body: simplePage()}
		tf := c16Node{K: "tfor", ID: b.id(), On: c16AllOn(2), Kids: []c16Node{b.once("style")}}
		c.Layouts = []c16File{
			{Name: "layouts/l0.vuego", Form: "frag", Layout: "l1", Body: append(append([]c16Node{}, nodes...), content)},
			{Name: "layouts/l1.vuego", Form: "doc", Head: []c16Node{b.once("script"), tf}, Body: append([]c16Node{b.wit(), content}, allComps()...)},
			// present but must not be applied: the chain is explicit
			{Name: "layouts/base.vuego", Form: "frag", Body: []c16Node{b.wit(), b.once("script"), content}},
		}
	}
	// second page on the same engine: its own marked element plus every component once
	alt := c16File{Name: "q.vuego", Layout: c.Page.Layout, Body: append([]c16Node{b.wit(), b.once("script")}, allComps()...)}
	c.Alt = &alt
	c.Comps = b.comps
	return c
}

// ---- random part

type c16R struct {
	r       *core.RNG
	b       *c16B
	budget  int
	hasSlot map[int]bool
}

type c16G struct {
	incFrom int   // components with index >= incFrom may be included
	slotOK  bool  // <slot> may be generated (component body, outside slot content)
	loops   []int // ids of lexically enclosing loops
	head    bool  // inside <head>: only script/style and <template> constructs
	nComps  int
	sawSlot *bool
}

func (g *c16R) list(depth int, cx c16G) []c16Node {
	r := g.r
	n := 1 + r.Intn(3)
	var out []c16Node
	hasOnce := false
	for j := 0; j < n; j++ {
		type opt struct {
			k string
			w int
		}
		var opts []opt
		if g.budget > 0 {
			opts = append(opts, opt{"once", 5})
		}
		if depth < 3 {
			if !cx.head {
				opts = append(opts, opt{"for", 2}, opt{"if", 2}, opt{"el", 1})
			}
			opts = append(opts, opt{"tfor", 1})
			if cx.incFrom < cx.nComps {
				opts = append(opts, opt{"inc", 3})
			}
		}
		if cx.slotOK && !cx.head {
			opts = append(opts, opt{"slot", 1})
		}
		if len(opts) == 0 {
			if !cx.head {
				out = append(out, g.b.wit())
			}
			continue
		}
		tot := 0
		for _, o := range opts {
			tot += o.w
		}
		x := r.Intn(tot)
		kind := ""
		for _, o := range opts {
			if x < o.w {
				kind = o.k
				break
			}
			x -= o.w
		}
		switch kind {
		case "once":
			g.budget--
			hasOnce = true
			tags := []string{"script", "style", "div"}
			if cx.head {
				tags = tags[:2]
			}
			e := g.b.once(core.Pick(r, tags))
			if e.Tag == "div" {
				if depth < 3 && r.Chance(1, 2) {
					sub := cx
					sub.slotOK = false
					e.Kids = g.list(depth+1, sub)
				} else {
					e.Kids = []c16Node{g.b.wit()}
				}
			}
			switch {
			case r.Chance(1, 6):
				e.Loop, e.ID, e.On = true, g.b.id(), c16AllOn(r.Intn(4))
			case r.Chance(1, 8):
				e.Cond = core.Pick(r, []string{"T", "F"})
			}
			out = append(out, e)
		case "el":
			e := g.b.wit()
			e.Kids = g.list(depth+1, cx)
			out = append(out, e)
		case "for", "tfor":
			id := g.b.id()
			on := make([]bool, r.Intn(4))
			for k := range on {
				on[k] = r.Chance(2, 3)
			}
			sub := cx
			sub.loops = append(append([]int{}, cx.loops...), id)
			out = append(out, c16Node{K: kind, ID: id, On: on, Kids: g.list(depth+1, sub)})
		case "if":
			nd := c16Node{K: "if", Cond: "T"}
			switch {
			case len(cx.loops) > 0 && r.Chance(1, 2):
				nd.Cond, nd.Ref = "x", core.Pick(r, cx.loops)
			case r.Chance(1, 4):
				nd.Cond = "F"
			}
			nd.Kids = g.list(depth+1, cx)
			out = append(out, nd)
		case "inc":
			k := cx.incFrom + r.Intn(cx.nComps-cx.incFrom)
			nd := c16Node{K: "inc", Comp: k}
			if r.Chance(1, 5) {
				nd.Loop, nd.ID, nd.On = true, g.b.id(), c16AllOn(r.Intn(4))
			} else if g.hasSlot[k] && r.Chance(3, 4) {
				sub := cx
				sub.slotOK = false
				nd.Kids = g.list(depth+1, sub)
			}
			out = append(out, nd)
		case "slot":
			*cx.sawSlot = true
			out = append(out, c16Node{K: "slot"})
		}
	}
	if hasOnce && !cx.head {
		// a witness next to the marked elements
		w := g.b.wit()
		if r.Bool() {
			out = append([]c16Node{w}, out...)
		} else {
			out = append(out, w)
		}
	}
	return out
}

// c16Rand draws random sites until one is small enough to render quickly
// (slots and nested includes multiply).
func c16Rand(seed uint64, i int) c16Case {
	for try := 0; try < 10; try++ {
		c := c16RandTry(seed, i, try)
		size := c16Model(&c, &c.Page).visits
		if c.Alt != nil {
			size += c16Model(&c, c.Alt).visits
		}
		if size <= 600 {
			return c
		}
	}
	b := &c16B{}
	return c16Case{Part: "rand", Page: c16File{Name: "p.vuego", Body: []c16Node{b.wit(), b.once("script")}}}
}

func c16RandTry(seed uint64, i, try int) c16Case {
	r := core.NewRNG(seed, uint64(i), 0xC16, uint64(try))
	g := &c16R{r: r, b: &c16B{}, budget: 1 + r.Intn(4), hasSlot: map[int]bool{}}
	c := c16Case{Part: "rand"}
	nComps := r.Intn(4)
	comps := make([]c16File, nComps)
	for k := nComps - 1; k >= 0; k-- {
		saw := false
		body := g.list(1, c16G{incFrom: k + 1, slotOK: true, nComps: nComps, sawSlot: &saw})
		form := "bare"
		if r.Chance(1, 3) {
			form = "troot"
		}
		if form == "bare" && !r.Chance(1, 8) {
			// keep the first node a plain element (a leading <template> tag makes the engine treat the file as template-rooted)
			body = append([]c16Node{g.b.wit()}, body...)
		}
		g.hasSlot[k] = saw
		comps[k] = c16File{Name: fmt.Sprintf("c%d.vuego", k), Form: form, Body: body}
	}
	c.Comps = comps
	dummy := false
	pageCx := c16G{incFrom: 0, nComps: nComps, sawSlot: &dummy}
	c.Page = c16File{Name: "p.vuego", Body: g.list(0, pageCx)}
	if r.Chance(1, 2) {
		alt := c16File{Name: "q.vuego", Body: g.list(0, pageCx)}
		c.Alt = &alt
	}
	content := c16Node{K: "content"}
	insert := func(body []c16Node) []c16Node {
		at := r.Intn(len(body) + 1)
		out := append([]c16Node{}, body[:at]...)
		out = append(out, content)
		return append(out, body[at:]...)
	}
	layout := func(name string, doc bool) c16File {
		f := c16File{Name: name, Form: "frag", Body: insert(g.list(1, pageCx))}
		if doc {
			f.Form = "doc"
			hcx := pageCx
			hcx.head = true
			hcx.incFrom = nComps // no includes in <head>
			f.Head = g.list(2, hcx)
		}
		return f
	}
	switch r.Intn(5) {
	case 0, 1: // no layouts
	case 2: // default layout only
		c.Layouts = []c16File{layout("layouts/base.vuego", r.Bool())}
	case 3: // one explicit layout (a default layout may exist and must not be applied)
		c.Page.Layout = "l0"
		c.Layouts = []c16File{layout("layouts/l0.vuego", r.Bool())}
		if r.Bool() {
			c.Layouts = append(c.Layouts, layout("layouts/base.vuego", false))
		}
	case 4: // chain of two
		c.Page.Layout = "l0"
		l0 := layout("layouts/l0.vuego", false)
		l0.Layout = "l1"
		c.Layouts = []c16File{l0, layout("layouts/l1.vuego", r.Bool())}
	}
	if c.Alt != nil && r.Bool() {
		c.Alt.Layout = c.Page.Layout
	}
	if g.b.nm == 0 {
		c.Page.Body = append(c.Page.Body, g.b.wit(), g.b.once("script"))
	}
	return c
}
