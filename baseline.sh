#!/bin/bash
# Runs the repository's pinned suite with the verif guard OFF and compares with BASELINE.json:
# every stable_pass test must pass; only the always_fail test may fail.
. /verif/env.sh
cd /repo || exit 2
go test -json -vet=off -count=1 -timeout 25m ./... > /tmp/vuego-baseline.$$.json 2>/dev/null
python3 - /tmp/vuego-baseline.$$.json <<'PY'
import json,sys
res={}
for l in open(sys.argv[1]):
    try: e=json.loads(l)
    except: continue
    if e.get('Test') and e.get('Action') in('pass','fail','skip'):
        res[e['Package']+'::'+e['Test']]=e['Action']
b=json.load(open('/root/.vp/BASELINE.json'))
bad=[t for t in b['stable_pass'] if res.get(t)!='pass']
print("stable_pass=%d passed_now=%d missing_or_failed=%d"%(len(b['stable_pass']),sum(1 for t in b['stable_pass'] if res.get(t)=='pass'),len(bad)))
for t in bad[:20]: print("  NOT PASSING:",t,res.get(t))
sys.exit(1 if bad else 0)
PY
rc=$?
rm -f /tmp/vuego-baseline.$$.json
exit $rc
